"""Helpers of check C20: canonical dump of a Scenic road ``Network`` (for the
cache-vs-parse equivalence oracle) and the structural invariants of the C20 statement,
evaluated at caller-chosen elements / points.  Nothing here draws randomness.

Only what the statement says is asserted; situations the statement does not decide
(one-sided predecessor/successor links that the map file itself declares one-sided,
two-stage look-ups, directions inside intersections or where lanes overlap) are counted
under ``unjudged:*`` and never reported.
"""

import collections
import enum
import hashlib
import math

import shapely
import shapely.geometry as sg

EPS = 1e-9
SKIP = {"network", "_conditioned", "_dependencies", "_requiredProperties"}
F_RAWLINK = "lanesection-link-is-raw-opendrive-id"


def R():
    import scenic.domains.driving.roads as roads

    return roads


def _h(b):
    return hashlib.blake2b(b, digest_size=8).hexdigest()


# ----------------------------------------------------------------------------
# canonical dump
# ----------------------------------------------------------------------------
def canon(v):
    from scenic.core.regions import Region
    from scenic.core.vectors import VectorField

    roads = R()
    if v is None or isinstance(v, (bool, str)):
        return repr(v)
    if isinstance(v, enum.Enum):
        return f"{type(v).__name__}.{v.name}"
    if isinstance(v, int):
        return repr(int(v))
    if isinstance(v, float):
        return repr(float(v))
    if isinstance(v, roads.NetworkElement):
        return f"E<{type(v).__name__}:{v.uid}>"
    if isinstance(v, roads.Maneuver):
        return "M<" + ",".join(canon(getattr(v, k, "missing")) for k in
                               ("type", "startLane", "connectingLane", "endLane", "intersection")) + ">"
    if isinstance(v, roads.Signal):
        return "S<" + ",".join(canon(getattr(v, k, None)) for k in ("uid", "openDriveID", "country", "type")) + ">"
    if isinstance(v, shapely.Geometry):
        return f"G<{v.geom_type}:{_h(shapely.to_wkb(v))}>"
    if isinstance(v, shapely.STRtree):
        return f"T<{len(v.geometries)}:{_h(b''.join(shapely.to_wkb(g) for g in v.geometries))}>"
    if isinstance(v, Region):
        inner = [canon(getattr(v, k)) for k in ("polygons", "lineString") if getattr(v, k, None) is not None]
        return f"R<{type(v).__name__}:{getattr(v, 'name', None)!r}:{','.join(inner)}>"
    if isinstance(v, VectorField):
        return f"VF<{v.name}>"
    if isinstance(v, (tuple, list)):
        return type(v).__name__[0] + "[" + ",".join(canon(x) for x in v) + "]"
    if isinstance(v, dict):
        return "{" + ",".join(f"{canon(k)}:{canon(x)}" for k, x in sorted(v.items(), key=lambda kv: repr(kv[0]))) + "}"
    if isinstance(v, (set, frozenset)):
        return "s{" + ",".join(sorted(canon(x) for x in v)) + "}"
    if hasattr(v, "tolist"):
        return "a" + canon(v.tolist())
    return f"?<{type(v).__name__}>"


def dump(net):
    """Ordered list of 'owner.key=value' lines covering the network and every element."""
    out = []
    for k in sorted(net.__dict__):
        v = net.__dict__[k]
        out.append(f"N.{k}=" + (canon(list(v)) if k == "elements" else canon(v)))
    for uid, e in net.elements.items():
        out.append(f"{uid}.__class__={type(e).__name__}")
        for k in sorted(e.__dict__):
            if k in SKIP or k.startswith("_cached_"):
                continue
            out.append(f"{uid}.{k}={canon(e.__dict__[k])}")
    return out


def digest(lines):
    return _h("\n".join(lines).encode())


def first_diff(a, b, n=4):
    sa, sb = set(a), set(b)
    return {"only_in_result": [x[:240] for x in a if x not in sb][:n],
            "only_in_reference": [x[:240] for x in b if x not in sa][:n],
            "lines": [len(a), len(b)]}


# ----------------------------------------------------------------------------
# invariants
# ----------------------------------------------------------------------------
def _f(x):
    return None if x is None else round(float(x), 9)


def _uid(x):
    return x if x is None or isinstance(x, (str, int, float)) else getattr(x, "uid", f"<{type(x).__name__}>")


class Inv:
    def __init__(self, net):
        self.net = net
        self.tol = float(net.tolerance)
        self.viol = []
        self.st = collections.Counter()
        self.rd = R()
        self.tree = self.geoms = None

    def chk(self, clause, cond, finding=None, **detail):
        self.st["inv:" + clause] += 1
        if not cond:
            detail["finding"] = finding
            self.viol.append({"clause": clause, "detail": detail})
        return cond

    def has(self, seq, x):
        return any(y is x for y in seq)

    # -- every link target is the element registered under its uid ----------
    def registry(self):
        net, rd = self.net, self.rd
        els = net.elements
        bad = []

        def ref(owner, key, v):
            if isinstance(v, rd.NetworkElement):
                if els.get(v.uid) is not v:
                    bad.append([owner, key, _uid(v)])
            elif isinstance(v, rd._ElementPlaceholder):
                bad.append([owner, key, "placeholder:" + str(v.uid)])
            elif isinstance(v, rd.Maneuver):
                for k in ("startLane", "endLane", "connectingLane", "intersection"):
                    ref(owner, key + "." + k, getattr(v, k, None))
            elif isinstance(v, (tuple, list)):
                for x in v:
                    ref(owner, key, x)
            elif isinstance(v, dict):
                for x in v.values():
                    ref(owner, key, x)

        for uid, e in els.items():
            if e.uid != uid:
                bad.append([uid, "uid", e.uid])
            try:
                if e.network.elements is not els:
                    bad.append([uid, "network", "other network"])
            except (ReferenceError, AttributeError) as ex:
                bad.append([uid, "network", type(ex).__name__])
            for k, v in e.__dict__.items():
                if k not in SKIP:
                    ref(uid, k, v)
        for k in ("roads", "connectingRoads", "allRoads", "laneGroups", "lanes", "intersections", "sidewalks",
                  "shoulders", "roadSections", "laneSections", "_nominalDirElems", "_topLevelElements"):
            ref("N", k, getattr(net, k))
        self.chk("links-resolve-to-registered-elements", not bad, dangling=bad[:5], count=len(bad))
        self.chk("rtree-index-matches-elements",
                 list(net._uidForIndex) == list(els) and len(net._rtree.geometries) == len(els),
                 n_index=len(net._uidForIndex), n_elements=len(els))
        if not bad:
            for r in net.allRoads:
                self.road_chain(r)
            # adjacency is symmetric (cheap: every lane in every run)
            for l in net.lanes:
                for a_ in l.adjacentLanes:
                    self.chk("adjacent-lanes-reciprocal", self.has(a_.adjacentLanes, l), lane=l.uid, other=a_.uid)

    def inside(self, clause, child, parent, tol=None):
        tol = self.tol if tol is None else tol
        a = child.polygons.area
        if a <= 0:
            self.st["unjudged:zero-area-child"] += 1
            return
        out = child.polygons.difference(parent.polygons.buffer(tol)).area
        self.chk(clause, out <= 1e-3 * a or out <= 1e-4, child=child.uid, parent=parent.uid,
                 area_outside=_f(out), child_area=_f(a), tolerance=tol)

    def road_chain(self, e):
        """The sections of one road form a chain, and the ends of the chain carry the road's own
        links to intersections (ownership consistency between a road and its sections).  Cheap:
        run for every road of the network in every run (registry), not only for probed elements."""
        rd, chk = self.rd, self.chk
        secs = list(e.sections)
        for a_, b_ in zip(secs, secs[1:]):
            chk("road-sections-chained", a_._successor is b_, road=e.uid, section=a_.uid,
                successor=_uid(a_._successor), expected=b_.uid)
        if secs and isinstance(e._successor, rd.Intersection):
            chk("road-end-section-leads-to-roads-intersection", secs[-1]._successor is e._successor, road=e.uid,
                section=secs[-1].uid, section_successor=_uid(secs[-1]._successor), road_successor=_uid(e._successor))
        if secs and isinstance(e._predecessor, rd.Intersection):
            chk("road-end-section-leads-to-roads-intersection", secs[0]._predecessor is e._predecessor, road=e.uid,
                section=secs[0].uid, section_predecessor=_uid(secs[0]._predecessor), road_predecessor=_uid(e._predecessor))

    def predsucc(self, e, cls):
        """Link targets must be network elements; mutual pred/succ is only counted (maps declare one-sided links)."""
        for nm in ("_successor", "_predecessor"):
            t = getattr(e, nm)
            if t is None:
                continue
            if not isinstance(t, self.rd.NetworkElement):
                self.chk("link-target-is-not-an-element", False, finding=F_RAWLINK, element=e.uid, field=nm,
                         value=repr(t)[:60], value_type=type(t).__name__)
                continue
            self.st["inv:link-target-is-not-an-element"] += 1
            if isinstance(t, cls):
                back = t._predecessor if nm == "_successor" else t._successor
                self.st["links:mutual" if back is e else "unjudged:one-sided-pred-succ"] += 1

    # -- links + containment of one element, by type -------------------------------
    def element(self, e):
        rd, has, chk = self.rd, self.has, self.chk
        if isinstance(e, rd.Lane):
            chk("lane-in-group-lanes", has(e.group.lanes, e), lane=e.uid, group=_uid(e.group))
            chk("lane-in-road-lanes", has(e.road.lanes, e), lane=e.uid, road=_uid(e.road))
            chk("lane-group-road-is-lane-road", e.group.road is e.road, lane=e.uid)
            for s in e.sections:
                chk("section-owner-links", s.lane is e and s.group is e.group and s.road is e.road,
                    section=s.uid, lane=e.uid, got=[_uid(s.lane), _uid(s.group), _uid(s.road)])
                self.inside("section-inside-lane", s, e)
            for a in e.adjacentLanes:
                chk("adjacent-lanes-reciprocal", has(a.adjacentLanes, e), lane=e.uid, other=a.uid)
            for m in e.maneuvers:
                chk("maneuver-startlane-is-owner", m.startLane is e, lane=e.uid, got=_uid(m.startLane))
                if m.connectingLane is None:
                    chk("merge-maneuver-ends-at-successor", m.endLane is e._successor and m.intersection is None,
                        lane=e.uid, end=_uid(m.endLane), successor=_uid(e._successor))
                else:
                    chk("maneuver-listed-in-its-intersection",
                        m.intersection is not None and has(m.intersection.maneuvers, m), lane=e.uid)
            self.predsucc(e, rd.Lane)
            self.inside("lane-inside-group", e, e.group)
            self.inside("lane-inside-road", e, e.road)
        elif isinstance(e, rd.LaneSection):
            chk("section-in-lane-sections", has(e.lane.sections, e), section=e.uid, lane=_uid(e.lane))
            chk("section-owner-links", e.group is e.lane.group and e.road is e.lane.road, section=e.uid,
                lane=_uid(e.lane), got=[_uid(e.lane), _uid(e.group), _uid(e.road)])
            L, Rt = e._laneToLeft, e._laneToRight
            if L is not None:
                back = L._laneToRight if L.isForward == e.isForward else L._laneToLeft
                chk("lane-to-left-reciprocal", back is e and has(e.adjacentLanes, L), section=e.uid, left=L.uid,
                    back=_uid(back))
            if Rt is not None:
                chk("lane-to-right-reciprocal", Rt._laneToLeft is e and has(e.adjacentLanes, Rt), section=e.uid,
                    right=Rt.uid, back=_uid(Rt._laneToLeft))
            for a in e.adjacentLanes:
                chk("adjacent-lanes-reciprocal", has(a.adjacentLanes, e), lane=e.uid, other=a.uid)
            self.predsucc(e, rd.LaneSection)
            self.inside("section-inside-lane", e, e.lane)
        elif isinstance(e, rd.LaneGroup):
            chk("group-in-road-lanegroups", has(e.road.laneGroups, e) and
                (e.road.forwardLanes is e or e.road.backwardLanes is e), group=e.uid, road=_uid(e.road))
            for l in e.lanes:
                chk("lane-in-group-lanes", l.group is e, lane=l.uid, group=e.uid)
            o = e._opposite
            if o is not None:
                chk("opposite-group-reciprocal", o._opposite is e and o.road is e.road, group=e.uid, opposite=o.uid,
                    back=_uid(o._opposite))
            else:
                chk("opposite-group-reciprocal", len(e.road.laneGroups) < 2, group=e.uid, opposite=None)
            self.predsucc(e, rd.LaneGroup)
            self.inside("group-inside-road", e, e.road)
        elif isinstance(e, rd.Road):
            chk("road-children-owner-links", all(l.road is e for l in e.lanes) and all(g.road is e for g in e.laneGroups)
                and all(s.road is e and all(x.road is e for x in s.lanes) for s in e.sections), road=e.uid)
            self.predsucc(e, rd.Road)
            self.road_chain(e)
        elif isinstance(e, rd.RoadSection):
            chk("road-children-owner-links", has(e.road.sections, e), road=_uid(e.road), section=e.uid)
            self.predsucc(e, rd.RoadSection)
        elif isinstance(e, rd.Intersection):
            for i, m in enumerate(e.maneuvers):
                c = m.connectingLane
                d = dict(intersection=e.uid, index=i, start=_uid(m.startLane), connecting=_uid(c), end=_uid(m.endLane))
                chk("maneuver-in-startlane-maneuvers", has(m.startLane.maneuvers, m), **d)
                chk("maneuver-intersection-link", m.intersection is e, **d)
                chk("maneuver-lanes-listed-by-intersection",
                    has(e.incomingLanes, m.startLane) and has(e.outgoingLanes, m.endLane), **d)
                if chk("maneuver-has-connecting-lane", c is not None, **d):
                    chk("connecting-lane-links", c._predecessor is m.startLane and c._successor is m.endLane,
                        pred=_uid(c._predecessor), succ=_uid(c._successor), **d)
                    chk("connecting-lane-on-connecting-road", has(self.net.connectingRoads, c.road), **d)
                    self.inside("connecting-lane-inside-intersection", c, e, tol=max(self.tol, 0.5))
        else:
            self.st["unjudged:element-kind-" + type(e).__name__] += 1

    # -- look-ups at a point that lies inside element e ------------------------
    def lookups(self, e, p):
        net, rd = self.net, self.rd
        q = sg.Point(p)
        res = {}
        for name in ("laneAt", "laneSectionAt", "laneGroupAt", "roadAt", "intersectionAt", "elementAt"):
            r = getattr(net, name)(p)
            res[name] = r
            if r is not None:
                d = r.polygons.distance(q)
                self.chk("lookup-result-contains-point-within-tolerance", d <= self.tol + EPS, lookup=name,
                         point=[_f(p[0]), _f(p[1])], result=r.uid, distance=_f(d), tolerance=self.tol, seed_element=e.uid)
            else:
                self.st[f"lookup-none:{name}"] += 1
        own = {rd.Lane: "laneAt", rd.Road: "roadAt", rd.Intersection: "intersectionAt"}.get(type(e))
        d0 = e.polygons.distance(q)
        if own and d0 <= self.tol:
            self.chk("element-area-covered-by-its-lookup", res[own] is not None, lookup=own, element=e.uid,
                     point=[_f(p[0]), _f(p[1])], distance=_f(d0))
        if isinstance(e, rd.Intersection) and d0 == 0:  # documented priority of elementAt; not part of the statement
            self.st["priority:intersection-first" if isinstance(res["elementAt"], rd.Intersection)
                    else "unjudged:elementAt-not-intersection-inside-intersection"] += 1
        drivable = isinstance(e, (rd.Lane, rd.LaneSection, rd.LaneGroup, rd.Road, rd.RoadSection, rd.Intersection))
        if drivable and d0 == 0:
            self.chk("drivable-area-covered-by-lookups",
                     (res["roadAt"] is not None or res["intersectionAt"] is not None), element=e.uid,
                     point=[_f(p[0]), _f(p[1])], got={k: _uid(v) for k, v in res.items()})
            for two in ("laneSectionAt", "laneGroupAt", "elementAt"):
                if res[two] is None:
                    self.st["unjudged:none-from-" + two] += 1
        else:
            self.st["unjudged:point-not-in-drivable-element"] += 1

    def drivable_point(self, a, b):
        """Look-ups at a point of the network's drivableRegion (not tied to any element)."""
        dr = self.net.drivableRegion.polygons
        g = dr.geoms[a % len(dr.geoms)]
        ring = g.exterior.coords
        v, r = ring[(a // 5) % len(ring)], g.representative_point()
        t = (b % 64) / 64.0
        q = sg.Point(r.x + t * (v[0] - r.x), r.y + t * (v[1] - r.y))
        if dr.distance(q) > 0:
            q = r
        p = (float(q.x), float(q.y))
        got = {n: getattr(self.net, n)(p) for n in ("roadAt", "intersectionAt", "elementAt", "laneAt")}
        self.chk("drivable-area-covered-by-lookups", got["roadAt"] is not None or got["intersectionAt"] is not None,
                 element="drivableRegion", point=[_f(p[0]), _f(p[1])], got={k: _uid(v) for k, v in got.items()})
        for n, r in got.items():
            if r is None:
                self.st[("unjudged:drivable-point-none-from-" if n == "elementAt" else "lookup-none:") + n] += 1
            else:
                d = r.polygons.distance(q)
                self.chk("lookup-result-contains-point-within-tolerance", d <= self.tol + EPS, lookup=n,
                         point=[_f(p[0]), _f(p[1])], result=r.uid, distance=_f(d), tolerance=self.tol,
                         seed_element="drivableRegion")

    def point_in(self, e, kind, a, b):
        """A point of element e (deterministic in kind,a,b); falls back to the representative point."""
        poly = e.polygons
        rep = poly.representative_point()
        q = rep
        if kind == 1:
            q = poly.centroid
        elif kind == 2 and hasattr(e, "centerline"):
            q = e.centerline.lineString.interpolate((a % 1025) / 1024.0, normalized=True)
        elif kind == 3:
            g = poly.geoms[a % len(poly.geoms)]
            ring = g.exterior.coords
            v = ring[b % len(ring)]
            r2 = g.representative_point()
            t = ((a // 7) % 64) / 64.0
            q = sg.Point(r2.x + t * (v[0] - r2.x), r2.y + t * (v[1] - r2.y))
        if q.is_empty or poly.distance(q) > 0:
            q = rep
        return (float(q.x), float(q.y))

    # -- tolerant pass: a point just outside e must still be found -------------
    def tolerant(self, e, a, side):
        rd = self.rd
        own = {rd.Lane: "laneAt", rd.Road: "roadAt", rd.Intersection: "intersectionAt"}.get(type(e))
        if own is None or self.tol <= 0:
            self.st["unjudged:tolerant-not-applicable"] += 1
            return
        poly = e.polygons
        g = poly.geoms[a % len(poly.geoms)]
        ring = list(g.exterior.coords)
        i = (a // 3) % (len(ring) - 1)
        (x0, y0), (x1, y1) = ring[i][:2], ring[i + 1][:2]
        L = math.hypot(x1 - x0, y1 - y0)
        if L < 1e-6:
            self.st["unjudged:tolerant-degenerate-edge"] += 1
            return
        for s in ((1, -1) if side else (-1, 1)):  # one of the two normals points out of the polygon
            p = ((x0 + x1) / 2 + s * (y1 - y0) / L * self.tol / 2, (y0 + y1) / 2 - s * (x1 - x0) / L * self.tol / 2)
            d = poly.distance(sg.Point(p))
            if 0.2 * self.tol <= d <= 0.8 * self.tol:
                break
        else:
            self.st["unjudged:tolerant-point-not-just-outside"] += 1
            return
        r = getattr(self.net, own)(p)
        if self.chk("point-within-tolerance-is-found", r is not None, lookup=own, element=e.uid,
                    point=[_f(p[0]), _f(p[1])], distance=_f(d), tolerance=self.tol):
            d2 = r.polygons.distance(sg.Point(p))
            self.chk("lookup-result-contains-point-within-tolerance", d2 <= self.tol + EPS, lookup=own,
                     point=[_f(p[0]), _f(p[1])], result=r.uid, distance=_f(d2), tolerance=self.tol, seed_element=e.uid)

    # -- a point farther than the tolerance from EVERY element must not be attributed to one ----------
    def outside(self, e, a, b):
        """From boundary vertices of e, step 1.2 x tolerance along a DIAGONAL (so that an axis-aligned search box of
        half-width tolerance would still touch e) until the true distance to every element is >= 1.05 x tolerance."""
        if self.tol <= 0:
            self.st["unjudged:outside-zero-tolerance"] += 1
            return
        if self.tree is None:  # own index: independent of the network's R-tree
            self.geoms = [x.polygons for x in self.net.elements.values()]
            self.tree = shapely.STRtree(self.geoms)
        poly = e.polygons
        ring = list(poly.geoms[a % len(poly.geoms)].exterior.coords)[:-1]
        n, r = len(ring), 1.2 * self.tol / math.sqrt(2)
        step = max(1, n // 64)
        for k in range(min(n, 64)):
            x, y = ring[(a // 3 + k * step) % n][:2]
            for j in range(4):
                sx, sy = ((1, 1), (-1, 1), (-1, -1), (1, -1))[(b + j) % 4]
                q = sg.Point(x + sx * r, y + sy * r)
                near = self.tree.query(q.buffer(2 * self.tol), predicate="intersects")
                dmin = min((self.geoms[i].distance(q) for i in near), default=None)
                if dmin is not None and 1.05 * self.tol <= dmin <= 1.3 * self.tol:
                    p = (float(q.x), float(q.y))
                    self.st["outside-point-probed"] += 1
                    for name in ("elementAt", "roadAt", "laneAt", "laneSectionAt", "laneGroupAt", "intersectionAt",
                                 "sidewalkAt", "shoulderAt"):
                        res = getattr(self.net, name)(p)
                        d = None if res is None else res.polygons.distance(q)
                        self.chk("lookup-result-contains-point-within-tolerance", res is None or d <= self.tol + EPS,
                                 lookup=name, point=[_f(p[0]), _f(p[1])], result=_uid(res), distance=_f(d),
                                 tolerance=self.tol, nearest_element_distance=_f(dmin), seed_element=e.uid)
                    return
        self.st["unjudged:outside-no-diagonal-point-found"] += 1

    # -- traffic direction on a lane's centre line ---------------------------
    def direction(self, lane, a):
        net, rd = self.net, self.rd
        pts = [tuple(map(float, pt[:2])) for pt in lane.centerline.points]
        if len(pts) < 2:
            self.st["unjudged:direction-degenerate-centerline"] += 1
            return
        i = a % (len(pts) - 1)
        (x0, y0), (x1, y1) = pts[i], pts[i + 1]
        if math.hypot(x1 - x0, y1 - y0) < 1e-3:
            self.st["unjudged:direction-short-segment"] += 1
            return
        p = ((x0 + x1) / 2, (y0 + y1) / 2)  # segment mid-point: away from the joints
        q = sg.Point(p)
        near = [net.elements[net._uidForIndex[j]] for j in
                net._rtree.query(q.buffer(max(self.tol, 1e-6)), predicate="intersects")]
        nlanes = sum(1 for x in near if isinstance(x, rd.Lane))
        if (self.has(net.connectingRoads, lane.road) or any(isinstance(x, rd.Intersection) for x in near)
                or nlanes != 1 or lane.polygons.distance(q) > 0):
            self.st["unjudged:direction-in-intersection-or-overlapping-lanes"] += 1
            return
        hs = []  # headings (Scenic convention: 0 = +y) of the centre-line pieces passing within tolerance of p
        for j in range(len(pts) - 1):
            seg = sg.LineString([pts[j], pts[j + 1]])
            if seg.length > 0 and seg.distance(q) <= max(self.tol, 1e-6):
                hs.append(math.atan2(pts[j + 1][1] - pts[j][1], pts[j + 1][0] - pts[j][0]) - math.pi / 2)

        def off(yaw):
            return min(abs(math.remainder(float(yaw) - h, 2 * math.pi)) for h in hs)

        yaw = net.roadDirection[rd._toVector(p)].yaw
        self.chk("road-direction-tangent-to-centerline", off(yaw) <= 1e-6, lane=lane.uid, point=[_f(p[0]), _f(p[1])],
                 reported_heading=_f(yaw), centerline_headings=[_f(h) for h in hs[:4]], angle_off=_f(off(yaw)))
        nd = [o.yaw for o in net.nominalDirectionsAt(p)]
        self.chk("nominal-directions-tangent-to-centerline", bool(nd) and all(off(y) <= 1e-6 for y in nd),
                 lane=lane.uid, point=[_f(p[0]), _f(p[1])], reported=[_f(y) for y in nd],
                 centerline_headings=[_f(h) for h in hs[:4]])
        # the same at points 2 cm inside the lane's own borders (closer to the neighbouring lane than
        # the tolerance, but strictly inside this lane only): the orientation of the aggregate regions
        # must still be this lane's direction, not the neighbour's
        tx, ty = x1 - x0, y1 - y0
        ln = math.hypot(tx, ty)
        nx, ny = -ty / ln, tx / ln
        for sign in (1.0, -1.0):
            ray = sg.LineString([p, (p[0] + sign * nx * 60, p[1] + sign * ny * 60)])
            inside = ray.intersection(lane.polygons)
            d = 0.0
            for g in getattr(inside, "geoms", [inside]):
                if g.geom_type == "LineString" and g.distance(q) < 1e-9:
                    d = g.length
            if d < 0.2:
                self.st["unjudged:direction-border-point"] += 1
                continue
            b = (p[0] + sign * nx * (d - 0.02), p[1] + sign * ny * (d - 0.02))
            bq = sg.Point(b)
            # (polygons of neighbouring lane groups / roads may overlap the border by a few centimetres,
            # and then the point belongs to both: only points that lie in this lane, its group and its road
            # alone are judged)
            others = [x for x in (net.elements[net._uidForIndex[j]] for j in
                                  net._rtree.query(bq.buffer(1e-9), predicate="intersects"))
                      if (isinstance(x, rd.Lane) and x is not lane)
                      or (isinstance(x, rd.LaneGroup) and x is not lane.group)
                      or (isinstance(x, rd.Road) and x is not lane.road)
                      or isinstance(x, rd.Intersection)]
            if others or not lane.polygons.contains(bq):
                self.st["unjudged:direction-border-point"] += 1
                continue
            for name in ("laneRegion", "roadRegion", "drivableRegion"):
                reg = getattr(net, name, None)
                field = getattr(reg, "orientation", None)
                if field is None:
                    continue
                try:
                    y = field[rd._toVector(b)].yaw
                except Exception as ex:  # noqa: BLE001 - a point of the region must have a direction
                    self.chk("region-orientation-near-lane-border", False, lane=lane.uid, region=name,
                             point=[_f(b[0]), _f(b[1])], error=type(ex).__name__)
                    continue
                own = lane.orientation[rd._toVector(b)].yaw  # the lane's own direction at that point
                d_own = abs(math.remainder(float(y) - float(own), 2 * math.pi))
                self.chk("region-orientation-near-lane-border", d_own <= 1e-6, lane=lane.uid, region=name,
                         point=[_f(b[0]), _f(b[1])], reported_heading=_f(y), lane_heading=_f(own),
                         angle_off=_f(d_own), distance_to_border=0.02)
