"""Shared driver: seeded batch of simulated runs, shrinking, replay files,
known findings, evidence, determinism self-test.

A check module (simverif.checks.cXX) provides:

  ID, LEVEL, RULE, COMPONENTS, ASSUMPTIONS, TECHNIQUE
  BUDGET = {"quick": (max_runs, seconds), "thorough": (max_runs, seconds)}
  prepare()                 -- optional, run once in the master before forking
  run(tape) -> dict         -- one simulated run; pure function of the tape and /repo
        keys: violations [ {clause, detail} ], digest, key, nontrivial,
              stats {name: int}, sample (json-able), steps, simsec
  classify(violation) -> finding key or None   -- optional (known-finding matcher)
  finish(agg) -> dict       -- optional extra coverage keys

Exit codes: 0 held; 1 violation (a line ``VIOLATION property=<id> replay=<path>``);
2 harness failure (never a VIOLATION line).
"""

import argparse
import collections
import concurrent.futures as cf
import faulthandler
import hashlib
import importlib
import json
import multiprocessing
import os
import pathlib
import subprocess
import sys
import time
import traceback

from .tape import Tape, derive_seed, shrink

VERIF = pathlib.Path(__file__).resolve().parent.parent
REPO = pathlib.Path(os.environ.get("SIMVERIF_REPO", "/repo"))
PY = "/venv/bin/python"
RUN_WALL_LIMIT = 600  # s; a wall-clock kill is a harness failure, never exit 0


# --------------------------------------------------------------------------
# build step: the parser is an untracked product of scenic.gram
# --------------------------------------------------------------------------
def ensure_parser():
    gram = REPO / "src/scenic/syntax/scenic.gram"
    parser = REPO / "src/scenic/syntax/parser.py"
    tmp = parser.with_name(f".parser.{os.getpid()}.tmp")
    try:
        r = subprocess.run(
            [PY, "-m", "pegen", str(gram), "-o", str(tmp)],
            cwd=str(REPO),
            capture_output=True,
            text=True,
            timeout=300,
        )
        if r.returncode != 0:
            print("HARNESS-ERROR: parser generation failed:\n" + r.stderr[-2000:])
            sys.exit(2)
        new = tmp.read_text()
        # pegen writes the output path into the header; normalise it
        new = new.replace(str(tmp), str(parser))
        old = parser.read_text() if parser.exists() else None
        if old != new:
            tmp.write_text(new)
            os.replace(tmp, parser)
    finally:
        if tmp.exists():
            tmp.unlink()


def reexec_if_needed():
    if os.environ.get("SIMVERIF_CHILD") == "1":
        return
    env = dict(os.environ)
    env["SIMVERIF_CHILD"] = "1"
    env.setdefault("PYTHONHASHSEED", "0")
    env["PYTHONDONTWRITEBYTECODE"] = "1"
    for v in ("OMP_NUM_THREADS", "OPENBLAS_NUM_THREADS", "MKL_NUM_THREADS"):
        env[v] = "1"
    env["PYTHONPATH"] = str(VERIF) + os.pathsep + env.get("PYTHONPATH", "")
    so = build_native()
    if so:
        env["LD_PRELOAD"] = so
    os.execve(PY, [PY, "-m", "simverif"] + sys.argv[1:], env)


def build_native():
    """Performance-only shim (see native/mmapcache.c); absent => checks just run slower."""
    src = VERIF / "native" / "mmapcache.c"
    out = VERIF / ".cache" / "mmapcache.so"
    try:
        if not out.exists() or out.stat().st_mtime < src.stat().st_mtime:
            out.parent.mkdir(exist_ok=True)
            tmp = out.with_name(f"mmapcache.{os.getpid()}.so")
            r = subprocess.run(
                ["clang", "-O2", "-shared", "-fPIC", "-o", str(tmp), str(src), "-ldl"],
                capture_output=True,
                timeout=120,
            )
            if r.returncode != 0:
                return None
            os.replace(tmp, out)
        return str(out)
    except Exception:  # noqa: BLE001
        return None


# --------------------------------------------------------------------------
# worker side
# --------------------------------------------------------------------------
_MOD = None


def _load(modname):
    global _MOD
    if _MOD is None or _MOD.__name__ != modname:
        _MOD = importlib.import_module(modname)
    return _MOD


def _init_worker(modname, tier):
    """Runs in the master and (again, only if the state was not inherited) in workers."""
    mod = _load(modname)
    if not getattr(mod, "_simverif_prepared", False):
        if hasattr(mod, "prepare"):
            mod.prepare()
        mod._simverif_prepared = True
    if hasattr(mod, "set_tier"):
        mod.set_tier(tier)


def run_one(mod, seed=None, prefix=None):
    """Execute one run; harness exceptions are classified apart from violations."""
    tape = Tape(seed=seed, prefix=prefix)
    try:
        res = mod.run(tape)
    except BaseException as e:  # noqa: BLE001 - classify everything
        if isinstance(e, (KeyboardInterrupt, SystemExit)):
            raise
        return {
            "harness_error": "".join(traceback.format_exception(e))[-4000:],
            "tape": list(tape.values),
        }
    res.setdefault("violations", [])
    res.setdefault("stats", {})
    res.setdefault("nontrivial", True)
    res.setdefault("steps", 0)
    res.setdefault("simsec", 0.0)
    res["tape"] = list(tape.values)
    if "digest" not in res:
        res["digest"] = hashlib.blake2b(
            json.dumps(res.get("sample"), sort_keys=True, default=repr).encode(),
            digest_size=8,
        ).hexdigest()
    res.setdefault("key", res["digest"])
    return res


def run_case_one(mod, case):
    """Execute one decoded case (second-stage replay format); same result shape as run_one."""
    try:
        res = mod.run_case(json.loads(json.dumps(case)))
    except BaseException as e:  # noqa: BLE001
        if isinstance(e, (KeyboardInterrupt, SystemExit)):
            raise
        return {"harness_error": "".join(traceback.format_exception(e))[-4000:], "tape": []}
    res.setdefault("violations", [])
    res["tape"] = []
    return res


def _chunk(modname, items, keep_samples):
    mod = _load(modname)
    out = []
    for idx, seed in items:
        faulthandler.dump_traceback_later(RUN_WALL_LIMIT, exit=True)
        r = run_one(mod, seed=seed)
        faulthandler.cancel_dump_traceback_later()
        r["idx"] = idx
        r["seed"] = seed
        if not (r.get("violations") or r.get("harness_error") or idx < keep_samples):
            r.pop("sample", None)
            r.pop("tape", None)
        out.append(r)
    return out


# --------------------------------------------------------------------------
# known findings
# --------------------------------------------------------------------------
def load_known(prop):
    p = VERIF / "known_findings.json"
    if not p.exists():
        return {}
    data = json.loads(p.read_text())
    return {
        f["key"]: f
        for f in data.get("findings", [])
        if f.get("property") == prop and f.get("status") == "known"
    }


# --------------------------------------------------------------------------
# master
# --------------------------------------------------------------------------
def clause_of(res, clause):
    for v in res.get("violations", []):
        if v["clause"] == clause:
            return v
    return None


def minimise(mod, res, viol, budget):
    clause = viol["clause"]
    fkey = mod.classify(viol) if hasattr(mod, "classify") else None

    def still(vals):
        r = run_one(mod, prefix=vals)
        if r.get("harness_error"):
            return False
        v = clause_of(r, clause)
        if v is None:
            return False
        if hasattr(mod, "classify") and mod.classify(v) != fkey:
            return False
        return True

    vals, calls = shrink(
        res["tape"], still,
        budget=min(budget, getattr(mod, "SHRINK_BUDGET", budget)),
        seconds=getattr(mod, "SHRINK_SECONDS", 90),
    )
    final = run_one(mod, prefix=vals)
    v = clause_of(final, clause)
    if v is None:  # shrinking must end on a failing list; fall back to original
        vals = res["tape"]
        final = run_one(mod, prefix=vals)
        v = clause_of(final, clause)
    final["min_case"] = None
    if v is not None and hasattr(mod, "run_case") and hasattr(mod, "shrink_case") and final.get("case"):
        # second stage: structural minimisation of the decoded case
        def still_case(case):
            r = run_case_one(mod, case)
            if r.get("harness_error"):
                return False
            w = clause_of(r, clause)
            if w is None:
                return False
            return not hasattr(mod, "classify") or mod.classify(w) == fkey

        case0 = json.loads(json.dumps(final["case"]))
        if still_case(case0):
            faulthandler.dump_traceback_later(RUN_WALL_LIMIT * 4, exit=True)
            try:
                case, calls2 = mod.shrink_case(case0, still_case)
            finally:
                faulthandler.cancel_dump_traceback_later()
            r = run_case_one(mod, case)
            w = clause_of(r, clause)
            if w is not None:
                calls += calls2
                r["min_case"] = case
                return vals, r, w, calls
    return vals, final, v, calls


def write_replay(mod, seed, vals, final, viol, fkey):
    d = VERIF / "replays"
    d.mkdir(exist_ok=True)
    tag = hashlib.blake2b(
        (viol["clause"] + repr(vals)).encode(), digest_size=4
    ).hexdigest()
    path = d / f"{mod.ID}-{seed}-{tag}.json"
    path.write_text(
        json.dumps(
            {
                "property": mod.ID,
                "clause": viol["clause"],
                "finding_key": fkey,
                "seed": seed,
                "tape": vals,
                "case": final.get("min_case"),
                "decoded": final.get("sample"),
                "detail": viol.get("detail"),
            },
            indent=1,
            default=repr,
        )
    )
    return path


def replay_file(mod, path, quiet=False):
    data = json.loads(pathlib.Path(path).read_text())
    if data.get("case") is not None and hasattr(mod, "run_case"):
        # minimised decoded case (the tape in the file is the stage-one result it came from)
        r = run_case_one(mod, data["case"])
    else:
        r = run_one(mod, prefix=data["tape"])
    if r.get("harness_error"):
        print("HARNESS-ERROR during replay:\n" + r["harness_error"])
        return 2
    v = clause_of(r, data["clause"])
    if v is None:
        if not quiet:
            print(f"replay of {path}: clause {data['clause']!r} did not reproduce")
            for o in r.get("violations", []):
                print("  other violation:", o["clause"])
        return 0
    fkey = mod.classify(v) if hasattr(mod, "classify") else None
    known = load_known(mod.ID)
    if not quiet:
        print(json.dumps({"clause": v["clause"], "detail": v.get("detail")}, default=repr)[:3000])
    if fkey is not None and fkey in known:
        print(f"KNOWN-FINDING: property={mod.ID} {fkey} {known[fkey].get('what','')}")
        print(f"REPRODUCED-KNOWN property={mod.ID} replay={path}")
        return 0
    print(f"VIOLATION property={mod.ID} replay={path}")
    return 1


def fresh_replay_reproduces(mod, path):
    env = dict(os.environ)
    env["PYTHONHASHSEED"] = "7"
    r = subprocess.run(
        [PY, "-m", "simverif", mod.ID, "--replay", str(path), "--reproduce-check"],
        env=env,
        capture_output=True,
        text=True,
        timeout=RUN_WALL_LIMIT,
        cwd=str(VERIF),
    )
    return "REPRODUCED" in r.stdout, r.stdout[-1500:] + r.stderr[-1500:]


def selftest_digests(mod, tier, pairs, main_digests):
    """Same seeds in a fresh interpreter, other PYTHONHASHSEED, one worker."""
    env = dict(os.environ)
    env["PYTHONHASHSEED"] = "4242"
    spec = ",".join(f"{i}:{s}" for i, s in pairs)
    try:
        r = subprocess.run(
            [PY, "-m", "simverif", mod.ID, "--tier", tier, "--digests", spec],
            env=env,
            capture_output=True,
            text=True,
            timeout=RUN_WALL_LIMIT,
            cwd=str(VERIF),
        )
    except subprocess.TimeoutExpired:
        return False, "determinism self-test subprocess timed out", 0
    got = {}
    for line in r.stdout.splitlines():
        if line.startswith("DIGEST "):
            _, i, d = line.split()
            got[int(i)] = d
    bad = [
        (i, main_digests.get(i), got.get(i))
        for i, _ in pairs
        if main_digests.get(i) != got.get(i)
    ]
    if bad:
        return False, f"digest mismatch {bad[:5]} stderr={r.stderr[-800:]}", len(pairs)
    return True, "", len(pairs)


def main(argv=None):
    ap = argparse.ArgumentParser(prog="check")
    ap.add_argument("prop")
    ap.add_argument("--tier", default=os.environ.get("VERIF_TIER") or "quick")
    ap.add_argument("--replay")
    ap.add_argument("--reproduce-check", action="store_true")
    ap.add_argument("--digests")
    ap.add_argument("--runs", type=int)
    ap.add_argument("--seconds", type=float)
    ap.add_argument("--workers", type=int, default=min(12, os.cpu_count() or 1))
    ap.add_argument("--no-selftest", action="store_true")
    ap.add_argument("--no-evidence", action="store_true")
    ap.add_argument("--shrink-budget", type=int, default=250)
    ap.add_argument("--start", type=int, default=0, help="first run index")
    ap.add_argument("--refresh-known", metavar="KEY",
                    help="maintenance: treat this known finding as unlisted for this run, so that it is minimised "
                         "and a fresh replay file is written (the run then exits 1 by construction)")
    a = ap.parse_args(argv)
    if a.tier not in ("quick", "thorough"):
        a.tier = "quick"

    prop = a.prop.upper()
    modname = f"simverif.checks.{prop.lower()}"
    sys.path.insert(0, str(VERIF))
    base_seed = int(os.environ.get("VERIF_SEED") or 0)

    if not (a.replay or a.digests):
        ensure_parser()
    mod = _load(modname)
    _init_worker(modname, a.tier)

    if a.replay:
        if a.reproduce_check:
            data = json.loads(pathlib.Path(a.replay).read_text())
            r = run_one(mod, prefix=data["tape"])
            v = None if r.get("harness_error") else clause_of(r, data["clause"])
            print("REPRODUCED" if v is not None else "NOT-REPRODUCED")
            if r.get("harness_error"):
                print(r["harness_error"])
            return 0
        return replay_file(mod, a.replay)

    if a.digests:
        for item in a.digests.split(","):
            i, s = item.split(":")
            r = run_one(mod, seed=int(s))
            print("DIGEST", i, r.get("digest", "ERR:" + r.get("harness_error", "")[-200:].replace("\n", "|").replace(" ", "_")))
        return 0

    t0 = time.time()
    max_runs, seconds = mod.BUDGET[a.tier]
    if a.runs:
        max_runs = a.runs
    if a.seconds:
        seconds = a.seconds
    print(f"SEED {base_seed} property={prop} tier={a.tier} max_runs={max_runs} seconds={seconds}")

    chunk = getattr(mod, "CHUNK", 20)
    keep_samples = 4
    seeds = lambda i: derive_seed("simverif", prop, base_seed, i)  # noqa: E731

    agg = {
        "evaluations": 0,
        "keys": set(),
        "nontrivial_keys": set(),
        "stats": collections.Counter(),
        "steps": 0,
        "simsec": 0.0,
        "samples": [],
        "digests": {},
    }
    viols = []  # (res, violation)
    harness_errors = []

    # "fork" by default (workers inherit the prepared interpreter); a check whose runs
    # fork children themselves asks for "spawn", so that the workers do not share one
    # copy-on-write lineage (fork-heavy siblings contend badly in the kernel)
    ctx = multiprocessing.get_context(getattr(mod, "MP_CONTEXT", "fork"))
    # keep the (large) pre-fork heap out of the children's cyclic GC: avoids
    # copy-on-write faults over the whole heap in every worker
    import gc

    gc.collect()
    gc.freeze()
    next_idx = a.start
    end_idx = a.start + max_runs
    deadline = t0 + seconds
    try:
        with cf.ProcessPoolExecutor(
            max_workers=min(a.workers, getattr(mod, "MAX_WORKERS", a.workers)),
            mp_context=ctx, initializer=_init_worker, initargs=(modname, a.tier),
        ) as ex:
            pending = set()

            def submit():
                nonlocal next_idx
                nworkers = min(a.workers, getattr(mod, "MAX_WORKERS", a.workers))
                while len(pending) < nworkers + 2 and next_idx < end_idx and time.time() < deadline:
                    hi = min(end_idx, next_idx + chunk)
                    items = [(i, seeds(i)) for i in range(next_idx, hi)]
                    next_idx = hi
                    pending.add(ex.submit(_chunk, modname, items, a.start + keep_samples))

            submit()
            while pending:
                done, _ = cf.wait(pending, return_when=cf.FIRST_COMPLETED)
                for f in done:
                    pending.discard(f)
                    for r in f.result():
                        if r.get("harness_error"):
                            harness_errors.append(r)
                            continue
                        agg["evaluations"] += 1
                        agg["keys"].add(r["key"])
                        if r["nontrivial"]:
                            agg["nontrivial_keys"].add(r["key"])
                        agg["stats"].update(r["stats"])
                        agg["steps"] += r["steps"]
                        agg["simsec"] += r["simsec"]
                        if r["idx"] < a.start + 32:
                            agg["digests"][r["idx"]] = r["digest"]
                        if "sample" in r and r["idx"] < a.start + keep_samples:
                            agg["samples"].append((r["idx"], r["sample"]))
                        for v in r["violations"]:
                            viols.append((r, v))
                if len(viols) < 200 and len(harness_errors) < 50:
                    submit()
    except cf.process.BrokenProcessPool as e:
        harness_errors.append({"harness_error": f"worker died (wall limit or crash): {e}"})
    batch_wall = time.time() - t0

    # ---- violations: group, minimise, replay-verify, classify ---------------
    known = load_known(prop)
    if a.refresh_known:
        known.pop(a.refresh_known, None)
    groups = collections.OrderedDict()
    viols.sort(key=lambda rv: rv[0]["idx"])
    for r, v in viols:
        fkey = mod.classify(v) if hasattr(mod, "classify") else None
        g = (v["clause"], fkey)
        groups.setdefault(g, []).append((r, v))

    exit_code = 0
    reported = []
    known_hits = collections.Counter()
    for (clause, fkey), members in groups.items():
        if fkey is not None and fkey in known:
            known_hits[fkey] += len(members)
            continue
        if len(reported) >= 6:
            continue
        # shortest tape first: cheapest to shrink
        r, v = min(members, key=lambda rv: len(rv[0]["tape"]))
        vals, final, v2, calls = minimise(mod, r, v, a.shrink_budget)
        if v2 is None:
            harness_errors.append(
                {"harness_error": f"violation {clause} of run idx={r['idx']} did not reproduce in-process"}
            )
            continue
        fkey2 = mod.classify(v2) if hasattr(mod, "classify") else None
        path = write_replay(mod, r["seed"], vals, final, v2, fkey2)
        ok, out = fresh_replay_reproduces(mod, path)
        if not ok:
            harness_errors.append(
                {"harness_error": f"HARNESS-NONDETERMINISM: replay {path} did not reproduce in a fresh interpreter:\n{out}"}
            )
            continue
        if fkey2 is not None and fkey2 in known:
            known_hits[fkey2] += len(members)
            continue
        reported.append((clause, str(path), len(members), calls))
        print(f"violation clause={clause} runs={len(members)} shrink_calls={calls} tape_len={len(vals)}")
        print("  detail:", json.dumps(v2.get("detail"), default=repr)[:1500])
        print(f"VIOLATION property={prop} replay={path}")
        exit_code = 1

    for fkey, n in sorted(known_hits.items()):
        print(f"KNOWN-FINDING: property={prop} {fkey} {known[fkey].get('what','')} (hit in {n} runs)")

    # ---- determinism self-test ---------------------------------------------
    st = {"ran": False}
    if not a.no_selftest and not harness_errors and agg["digests"]:
        n = getattr(mod, "SELFTEST_N", {}).get(a.tier) or (12 if a.tier == "quick" else 32)
        pairs = [(i, seeds(i)) for i in sorted(agg["digests"])[:n]]
        ok, msg, cnt = selftest_digests(mod, a.tier, pairs, agg["digests"])
        st = {"ran": True, "seeds": cnt, "identical": ok,
              "how": "same seeds re-run in a fresh interpreter, PYTHONHASHSEED 4242 vs 0, 1 worker vs pool"}
        if not ok:
            harness_errors.append({"harness_error": "HARNESS-NONDETERMINISM: " + msg})

    if harness_errors:
        print(f"HARNESS-ERROR: {len(harness_errors)} harness failure(s); first:")
        print(harness_errors[0]["harness_error"])
        if harness_errors[0].get("tape") is not None:
            print("  tape:", harness_errors[0]["tape"][:200])
        exit_code = 2 if exit_code == 0 else exit_code

    wall = time.time() - t0
    if not a.no_evidence:
        cov = {
            "evaluations": agg["evaluations"],
            "distinct_nontrivial": len(agg["nontrivial_keys"]),
            "distinct_total": len(agg["keys"]),
            "rule": mod.RULE,
            "samples": [s for _, s in sorted(agg["samples"], key=lambda x: x[0])][:3],
            "runs_per_hour": int(agg["evaluations"] / max(batch_wall, 1e-6) * 3600),
            "simulated_steps": agg["steps"],
            "simulated_seconds": round(agg["simsec"], 3),
            "probes_and_faults_fired": dict(sorted(agg["stats"].items())),
            "components": mod.COMPONENTS,
            "determinism_selftest": st,
            "known_findings_hit": dict(known_hits),
            "violations_reported": [
                {"clause": c, "replay": p, "runs": n} for c, p, n, _ in reported
            ],
            "harness_errors": len(harness_errors),
            "first_run_index": a.start,
            "workers": a.workers,
        }
        if hasattr(mod, "finish"):
            cov.update(mod.finish(agg))
        ev = {
            "property_id": prop,
            "tier": a.tier,
            "seed": base_seed,
            "level": mod.LEVEL,
            "coverage": cov,
            "assumptions": mod.ASSUMPTIONS,
            "wall_s": round(wall, 2),
            "violations": len(reported),
        }
        (VERIF / "evidence").mkdir(exist_ok=True)
        (VERIF / "evidence" / f"{prop}.json").write_text(json.dumps(ev, indent=1, default=repr))
    print(
        f"DONE property={prop} runs={agg['evaluations']} distinct_nontrivial={len(agg['nontrivial_keys'])} "
        f"violations={len(reported)} known={sum(known_hits.values())} harness_errors={len(harness_errors)} batch={batch_wall:.1f}s wall={wall:.1f}s exit={exit_code}"
    )
    return exit_code

