"""DYN fragment: abstract dynamic programs, their Scenic rendering, and an executable
reference model of the documented execution procedure
(docs/reference/dynamic_scenarios.rst, statements.rst; DESIGN.md Appendix A).

The reference is written from the documentation, not from the implementation: it is a
step-function interpreter whose coroutines are plain Python generators.  Where the
documentation is silent, a *pin* (boolean knob) selects between the plausible
behaviours; the oracle accepts any pin combination, so undocumented behaviour can
change without an alarm.

Abstract syntax (JSON-able lists):

 block statements
  ["ev", label] ["take", label] ["wait"] ["waitfor", n, unit] ["waituntil", k]
  ["do", [names], mod]      mod: None | ["for", n, unit] | ["until", k] | ["untilrnd", n]
  ["choose", [[name, w], ...], dictform] ["shuffle", [[name, w], ...], dictform]
  ["terminate"] ["terminatesim"] ["require", k]
  ["if", k, then, else] ["loop", n, body] ["while", body]
  ["try", body, [[k, hbody], ...]] ["abort"] ["break"] ["continue"] ["return"]
  ["override", obj, prop, value]
 setup statements
  ["new", obj, behavior|None] ["monitor", name] ["termwhen", k] ["termsimwhen", k]
  ["termafter", n, unit] ["ltl", formula] ["record", name, k] ["recordinitial", name, k]
  ["recordfinal", name, k] ["require", k] ["override", obj, prop, value] ["ev", label]
  ["rawrequire", scenic expression]  (top-level setup only: requirement on the initial scene)

 unit: "steps" | "seconds";  for seconds n is a decimal string and the program's
 timestep is a decimal string, so the documented step count n/timestep is exact.
"""

from fractions import Fraction

from . import ltl as L


# =============================================================================
# rendering to Scenic source
# =============================================================================
HEADER = "from simverif.userlib import tab, tabv, ev, evv, fault, val, Tok, ftab, prop, fspec, setflag, flag\n"

_FTAB = False  # set per render(): conditions carry a fault point (C14)
_EGO = None  # set per render(): name of the object that is also bound to `ego`
_MODE2D = False  # set per render(): program is compiled in 2D compatibility mode


def _c(k, site):
    return f"ftab({site!r}, {k})" if _FTAB else f"tab({k})"


def _dur(n, unit):
    return f"{n} {unit}"


def _call(name):
    # "@var:B1" = the behavior *instance* bound to a local variable (`var = B1()` at the
    # start of the body) and invoked again: same meaning as a fresh `B1()`
    if name.startswith("@"):
        return name[1:].split(":")[0]
    return f"{name}()"


def _defname(name):
    return name.split(":")[1] if name.startswith("@") else name


def render_block(stmts, ind, out, in_beh):
    pad = "    " * ind
    if not stmts:
        out.append(pad + "pass")
        return
    for s in stmts:
        op = s[0]
        if op == "ev":
            out.append(f"{pad}ev({s[1]!r})")
        elif op == "take":
            out.append(f"{pad}take Tok({s[1]!r})")
        elif op == "wait":
            out.append(f"{pad}wait")
        elif op == "waitfor":
            out.append(f"{pad}wait for {_dur(s[1], s[2])}")
        elif op == "waituntil":
            out.append(f"{pad}wait until {_c(s[1], 'waituntil')}")
        elif op == "do":
            calls = ", ".join(_call(n) for n in s[1])
            mod = s[2]
            if mod is None:
                out.append(f"{pad}do {calls}")
            elif mod[0] == "for":
                out.append(f"{pad}do {calls} for {_dur(mod[1], mod[2])}")
            elif mod[0] == "untilrnd":
                out.append(f"{pad}do {calls} until DiscreteRange(0, {mod[1] - 1}) == 0")
            else:
                out.append(f"{pad}do {calls} until {_c(mod[1], 'until')}")
        elif op in ("choose", "shuffle"):
            if s[2]:
                inner = "{" + ", ".join(f"{_call(n)}: {w}" for n, w in s[1]) + "}"
            else:
                inner = ", ".join(_call(n) for n, _ in s[1])
            out.append(f"{pad}do {op} {inner}")
        elif op == "draw":
            vals, label, form = s[1], s[2], s[3]
            if form == "uniform":
                expr = "Uniform(" + ", ".join(str(v) for v, _ in vals) + ")"
            elif form == "options":
                expr = "Options({" + ", ".join(f"{v}: {w}" for v, w in vals) + "})"
            else:
                expr = f"DiscreteRange({vals[0][0]}, {vals[-1][0]})"
            out.append(f"{pad}_d = {expr}")
            out.append(f"{pad}ev({label!r} + '=' + str(_d))")
        elif op == "terminate":
            out.append(f"{pad}terminate")
        elif op == "terminatesim":
            out.append(f"{pad}terminate simulation")
        elif op == "require":
            out.append(f"{pad}require {_c(s[1], 'require')}")
        elif op == "requireltl":
            out.append(f"{pad}require {L.render(s[1])}")
        elif op == "if":
            out.append(f"{pad}if {_c(s[1], 'if')}:")
            render_block(s[2], ind + 1, out, in_beh)
            if s[3]:
                out.append(f"{pad}else:")
                render_block(s[3], ind + 1, out, in_beh)
        elif op == "loop":
            out.append(f"{pad}for _i{ind} in range({s[1]}):")
            render_block(s[2], ind + 1, out, in_beh)
        elif op == "while":
            out.append(f"{pad}while True:")
            render_block(s[1], ind + 1, out, in_beh)
        elif op == "try":
            out.append(f"{pad}try:")
            render_block(s[1], ind + 1, out, in_beh)
            for k, hb in s[2]:
                out.append(f"{pad}interrupt when {_c(k, 'interrupt')}:")
                render_block(hb, ind + 1, out, in_beh)
        elif op in ("abort", "break", "continue", "return"):
            out.append(pad + op)
        elif op == "override":
            out.append(f"{pad}override {s[1]} with {s[2]} {s[3][1] if isinstance(s[3], list) else repr(s[3])}")
        elif op == "fault":
            out.append(f"{pad}fault({s[1]!r})")
        elif op == "setflag":
            out.append(f"{pad}setflag({s[1]!r})")
        elif op == "bind":
            out.append(f"{pad}{s[1]} = {s[2]}()")
        else:
            raise ValueError(op)


def render_setup(stmts, ind, out, objpos):
    pad = "    " * ind
    for s in stmts:
        op = s[0]
        if op == "new":
            x, y = objpos[s[1]]
            beh = f", with behavior {_call(s[2])}" if s[2] else ""
            # property value: a constant, or ["raw", <Scenic expression>, <its value>]
            extra = "".join(
                f", with {p} {v[1] if isinstance(v, list) else repr(v)}"
                for p, v in (s[3] if len(s) > 3 else [])
            )
            pos = f"({x}, {y})" if _MODE2D else f"({x}, {y}, 0)"
            out.append(f"{pad}{s[1]} = new Object at {pos}, with name {s[1]!r}{beh}{extra}")
            if _EGO == s[1]:
                out.append(f"{pad}ego = {s[1]}")
        elif op == "monitor":
            out.append(f"{pad}require monitor {_call(s[1])}")
        elif op == "termwhen":
            out.append(f"{pad}terminate when evv('tw', {_c(s[1], 'termwhen')})")
        elif op == "termsimwhen":
            out.append(f"{pad}terminate simulation when evv('tsw', {_c(s[1], 'termsimwhen')})")
        elif op == "termafter":
            out.append(f"{pad}terminate after {_dur(s[1], s[2])}")
        elif op == "ltl":
            out.append(f"{pad}require {L.render(s[1])}")
        elif op == "record":
            out.append(f"{pad}record evv('rec:{s[1]}', {_c(s[2], 'record')}) as {s[1]}")
        elif op == "recordinitial":
            out.append(f"{pad}record initial evv('rec:{s[1]}', tab({s[2]})) as {s[1]}")
        elif op == "recordfinal":
            out.append(f"{pad}record final evv('rec:{s[1]}', tab({s[2]})) as {s[1]}")
        elif op == "require":
            out.append(f"{pad}require {_c(s[1], 'require')}")
        elif op == "override":
            out.append(f"{pad}override {s[1]} with {s[2]} {s[3][1] if isinstance(s[3], list) else repr(s[3])}")
        elif op == "recordprop":
            out.append(f"{pad}record prop({s[2]!r}, {s[3]!r}) as {s[1]}")
        elif op == "fault":
            out.append(f"{pad}fault({s[1]!r})")
        elif op == "rawrequire":
            out.append(f"{pad}require {s[1]}")
        elif op == "ev":
            out.append(f"{pad}ev({s[1]!r})")
        else:
            raise ValueError(op)


def _guards(d, ind, out):
    pad = "    " * ind
    for k in d.get("pre", []):
        out.append(f"{pad}precondition: {_guard(k)}")
    for k in d.get("inv", []):
        out.append(f"{pad}invariant: {_guard(k)}")


def _guard(k):
    # ("rej", k): a guard whose evaluation raises a rejection when table k is false
    if isinstance(k, (list, tuple)):
        if k[0] == "flag":  # state the program itself changes (possibly within one time step)
            return f"flag({k[1]!r})"
        return f"grej({k[1]})"
    return _c(k, "guard")


def render(prog):
    global _FTAB, _MODE2D, _EGO
    _FTAB = bool(prog.get("ftab"))
    _EGO = prog.get("ego")
    _MODE2D = bool(prog.get("mode2D"))
    out = [HEADER.rstrip()]
    if prog.get("uses_grej"):
        out.append("from simverif.userlib import grej")
    objpos = prog["objpos"]
    for b in prog["behaviors"]:
        out.append(f"behavior {b['name']}():")
        _guards(b, 1, out)
        render_block(b["body"], 1, out, True)
    for m in prog["monitors"]:
        out.append(f"monitor {m['name']}():")
        render_block(m["body"], 1, out, False)
    for sc in prog["scenarios"]:
        if sc["name"] == prog["top"] and prog.get("flat"):
            continue
        out.append(f"scenario {sc['name']}():")
        _guards(sc, 1, out)
        if sc["setup"] or sc["compose"] is None:
            out.append("    setup:")
            if sc["setup"]:
                render_setup(sc["setup"], 2, out, objpos)
            else:
                out.append("        pass")
        if sc["compose"] is not None:
            out.append("    compose:")
            render_block(sc["compose"], 2, out, False)
    if prog.get("flat"):
        top = scn_def(prog, prog["top"])
        render_setup(top["setup"], 0, out, objpos)
    return "\n".join(out) + "\n"


def scn_def(prog, name):
    for sc in prog["scenarios"]:
        if sc["name"] == name:
            return sc
    raise KeyError(name)


def beh_def(prog, name):
    for b in prog["behaviors"]:
        if b["name"] == name:
            return b
    for m in prog["monitors"]:
        if m["name"] == name:
            return m
    raise KeyError(name)


# =============================================================================
# reference model
# =============================================================================
class Reject(Exception):
    """kind: 'reject' | 'precondition' | 'invariant' | 'ltl' ; who: invocable name"""

    def __init__(self, kind, who="", why=""):
        super().__init__(f"{kind}:{who}:{why}")
        self.kind = kind
        self.who = who
        self.why = why


class Unsupported(Exception):
    """The reference model declines to judge this run (undocumented corner)."""


class Inst:
    """Running instance of a behavior / monitor / scenario."""

    def __init__(self, defn, kind, agent=None, parent=None):
        self.defn = defn
        self.kind = kind
        self.name = defn["name"]
        self.agent = agent
        self.parent = parent
        self.gen = None
        self.running = False
        # scenario-only
        self.elapsed = 0
        self.limit = None
        self.ltl = []  # [formula, trace]
        self.termwhen = []
        self.termsimwhen = []
        self.records = []
        self.records_initial = []
        self.records_final = []
        self.monitors = []
        self.subs = []
        self.agents = []
        self.overrides = []  # (obj uid, prop, old)
        self.objvars = {}  # variable name -> uid, objects created by this scenario's setup
        self.waiting_self = False


DEFAULT_PINS = {
    # after an interrupt handler finishes, the interrupt conditions are evaluated again
    # in the same step (True) / the interrupted block is resumed directly (False)
    "recheck_after_handler": True,
    # an agent created by a sub-scenario keeps running its behavior after that
    # scenario has stopped
    "agents_outlive_scenario": True,
    # records of a sub-scenario stopped by `do ... until/for` are still saved until the
    # parent's next `do`
    "stale_sub_records": True,
    # a temporal `require` executed in a compose block is first evaluated in the step
    # that executes it (True) / in the following step (False)
    "dynltl_starts_now": True,
}


class Ref:
    def __init__(self, prog, tables, schedule, max_steps, pins=None, hints=None, rng=None, bugs=None,
                 raise_guards=False):
        self.p = prog
        self.raise_guards = raise_guards
        self.bugs = bugs or {}  # bug models: only ever used to attribute a violation to a known finding
        self.tables = tables
        self.schedule = schedule
        self.max_steps = max_steps
        self.timestep = Fraction(prog["timestep"])
        self.pins = dict(DEFAULT_PINS)
        if pins:
            self.pins.update(pins)
        self.hints = hints or {}
        self.rng = rng  # callable(weights)->index for choose/shuffle (C19)
        self.t = 0
        self.log = []
        self.actions = []  # per executed step: [(agent, [labels])] in schedule order
        self.ntraj = 0
        self.records = {}
        self.objects = []  # object uids in creation order
        self.oname = {}  # uid -> name (names may repeat when a scenario is invoked twice)
        self.agents = []  # uids in agent-list order
        self.behavior_of = {}  # uid -> behavior name / Inst / None
        self.creator = {}  # uid -> scenario Inst
        self.running_scn = []  # in start order
        self.props = {}  # (obj, prop) -> value, for override modelling
        self.termtype = None
        self.endsim_flag = False
        self.flags = set()

    # -- helpers -----------------------------------------------------------
    def tab(self, k):
        row = self.tables.get(k) or self.tables.get(str(k))
        if row is None:
            return False
        if self.t < len(row):
            return bool(row[self.t])
        return bool(row[-1])

    def guard(self, g):
        """Guard expression: int k -> tab(k); ["rej", k] -> raises rejection if false."""
        if isinstance(g, (list, tuple)):
            if g[0] == "flag":
                return g[1] in self.flags
            if not self.tab(g[1]):
                raise Reject("guardrej")
            return True
        return self.tab(g)

    def emit(self, kind, label=""):
        self.log.append((self.t, kind, label))

    def steps_of(self, n, unit):
        if unit == "steps":
            return Fraction(n)
        return Fraction(str(n)) / self.timestep

    # -- guards ------------------------------------------------------------
    def check_pre(self, inst):
        for g in inst.defn.get("pre", []):
            try:
                ok = self.guard(g)
            except Reject:
                ok = False
            if not ok:
                raise Reject("precondition", inst.name)

    def check_inv(self, inst):
        for g in inst.defn.get("inv", []):
            try:
                ok = self.guard(g)
            except Reject:
                ok = False
            if not ok:
                raise Reject("invariant", inst.name)

    # -- block interpreter (generator) ------------------------------------------
    # yields ('act', (labels...)) | ('endscn',) | ('endsim',)
    # returns None | 'break' | 'continue' | 'return'   ('abort' only inside try)
    def run_block(self, stmts, inst):
        for s in stmts:
            op = s[0]
            if op == "ev":
                self.emit("ev", s[1])
            elif op == "setflag":
                self.flags.add(s[1])
            elif op == "take":
                yield ("act", (s[1],))
                self.check_inv(inst)
            elif op == "wait":
                yield ("act", ())
                self.check_inv(inst)
            elif op == "waitfor":
                limit = self.steps_of(s[1], s[2])
                start = self.t
                while self.t - start < limit:
                    yield ("act", ())
                    self.check_inv(inst)
            elif op == "waituntil":
                while not self.tab(s[1]):
                    yield ("act", ())
                    self.check_inv(inst)
            elif op == "do":
                r = yield from self.run_do(s, inst)
                self.check_inv(inst)
                if r is not None:
                    return r
            elif op in ("choose", "shuffle"):
                yield from self.run_choose(s, inst)
                self.check_inv(inst)
            elif op == "draw":
                # a distribution evaluated at run time is sampled at that moment,
                # independently of earlier draws:  ["draw", [[value, weight], ...], label]
                vals = s[1]
                v = vals[0][0] if len(vals) == 1 else vals[self.pick([w for _, w in vals])][0]
                self.emit("ev", f"{s[2]}={v}")
            elif op == "terminate":
                yield ("endscn",)
                # a behavior whose `terminate` ended only the (sub-)scenario that created
                # its agent is resumed at the next step like after any other yield
                self.check_inv(inst)
            elif op == "terminatesim":
                yield ("endsim",)
            elif op == "require":
                if not self.tab(s[1]):
                    raise Reject("reject", inst.name, "require")
            elif op == "requireltl":
                # temporal requirement executed in a compose block: it belongs to the
                # executing scenario and takes effect now
                S = self.scenario_of(inst)
                if self.bugs.get("dynltl_ignored") and S is not self.top:
                    continue  # BUG MODEL: never monitored
                f = L.tup(s[1])
                if not L.is_temporal(f):
                    # an ordinary requirement: checked once, now
                    if not L.holds(f, [{k: self.tab(k) for k in L.atoms_of(f)}]):
                        raise Reject("reject", inst.name, "require")
                    continue
                if self.pins["dynltl_starts_now"]:
                    tr = [{k: self.tab(k) for k in L.atoms_of(f)}]
                    S.ltl.append([f, tr, None])
                    if self.ltl_rejects_now(f, tr, self.t in self.hints.get("ltl_reject_steps", ())):
                        raise Reject("ltl", S.name, L.render(f))
                else:
                    S.ltl.append([f, [], None])  # first evaluated at the next step
            elif op == "if":
                r = yield from self.run_block(s[2] if self.tab(s[1]) else s[3], inst)
                if r is not None:
                    return r
            elif op == "loop":
                for _ in range(s[1]):
                    r = yield from self.run_block(s[2], inst)
                    if r == "break":
                        break
                    if r in ("return", "return-from-try"):
                        return r
            elif op == "while":
                while True:
                    r = yield from self.run_block(s[1], inst)
                    if r == "break":
                        break
                    if r in ("return", "return-from-try"):
                        return r
            elif op == "try":
                r = yield from self.run_try(s, inst)
                if r is not None:
                    if r == "return" and self.bugs.get("nested_return"):
                        r = "return-from-try"
                    return r
            elif op in ("abort", "break", "continue", "return"):
                return op
            elif op == "override":
                self.do_override(self.scenario_of(inst), s[1], s[2], s[3])
            elif op in ("fault", "bind"):
                pass  # fault points / instance bindings are inert in the reference
            else:
                raise ValueError(op)
        return None

    def scenario_of(self, inst):
        while inst.kind != "scenario":
            inst = inst.parent
        return inst

    # -- try / interrupt ----------------------------------------------------------
    def run_try(self, s, inst):
        body = {"gen": self.run_block(s[1], inst), "running": True}
        handlers = [{"k": k, "stmts": hb, "gen": None} for k, hb in s[2]]
        while True:
            blk = body
            for h in reversed(handlers):  # latest clause first
                if h["gen"] is not None or self.tab(h["k"]):
                    blk = h
                    break
            while True:
                if blk is not body and blk["gen"] is None:
                    blk["gen"] = self.run_block(blk["stmts"], inst)
                try:
                    sig = next(blk["gen"])
                    concluded = False
                except StopIteration as e:
                    concluded, result = True, e.value
                    blk["gen"] = None
                if concluded and blk is not body and result is None and not self.pins["recheck_after_handler"]:
                    # resume what was interrupted without re-evaluating the conditions:
                    # the most recently started still-running handler, else the body
                    blk = body
                    for h in reversed(handlers):
                        if h["gen"] is not None:
                            blk = h
                            break
                    continue
                break
            if concluded:
                if blk is not body and result is None:
                    continue  # handler finished: choose again in the same step
                self._abandon(body, handlers)
                if result == "abort":
                    return None
                if result == "return-from-try":
                    # BUG MODEL: `return` reaching this statement from a try-interrupt
                    # nested inside one of its blocks only ends this statement
                    return None
                return result  # None (body finished) / break / continue / return
            yield sig
            if self.bugs.get("inv_during_sub"):
                # BUG MODEL: the enclosing invocable's invariants are re-checked after every
                # yield of a try-interrupt statement, even while a sub-behaviour is running
                self.check_inv(inst)

    def _abandon(self, body, handlers):
        for b in [body] + handlers:
            g = b.get("gen")
            if g is not None:
                g.close()
                b["gen"] = None

    # -- do ----------------------------------------------------------------------
    def run_do(self, s, inst):
        names, mod = s[1], s[2]
        if inst.kind == "scenario":
            inner = self.do_scenarios(inst, names)
        else:
            if len(names) != 1:
                raise Unsupported("parallel sub-behaviors")
            inner = self.do_behavior(inst, names[0])
        if mod is None:
            r = yield from inner
            return r
        if mod[0] == "for":
            limit = self.steps_of(mod[1], mod[2])
            start = self.t
            cond = lambda: self.t - start >= limit  # noqa: E731
        elif mod[0] == "untilrnd":
            # a distribution inside the condition is sampled afresh at every evaluation
            n = mod[1]
            cond = lambda: self.pick([1] * n) == 0  # noqa: E731
        else:
            k = mod[1]
            cond = lambda: self.tab(k)  # noqa: E731
        while True:
            if cond():
                inner.close()
                if inst.kind == "scenario":
                    for sub in list(inst.subs):
                        if sub.running:
                            self.stop_scn(sub, "until/for")
                return None
            try:
                sig = next(inner)
            except StopIteration:
                return None
            yield sig
            if self.bugs.get("inv_during_sub"):
                self.check_inv(inst)

    def do_behavior(self, caller, name):
        d = beh_def(self.p, _defname(name))
        sub = Inst(d, "behavior", agent=caller.agent, parent=caller)
        key = None
        if name.startswith("@"):
            # a behavior instance invoked again while an earlier invocation of the same
            # instance is merely suspended (interrupted, not abandoned) is a user error
            key = (caller.agent, id(caller), name)
            active = self.__dict__.setdefault("active_instances", set())
            if key in active:
                raise Unsupported("re-entrant use of a behavior instance")
            active.add(key)
        try:
            self.check_pre(sub)
            self.check_inv(sub)
            yield from self.run_block(d["body"], sub)
        finally:
            if key is not None:
                self.active_instances.discard(key)
        return None

    def enabled(self, name, inst):
        """Do the preconditions (and invariants) of the named behavior/scenario hold now?"""
        d = scn_def(self.p, name) if inst.kind == "scenario" else beh_def(self.p, name)
        probe = Inst(d, inst.kind, agent=inst.agent, parent=inst)
        try:
            self.check_pre(probe)
            self.check_inv(probe)
        except Reject:
            return False
        return True

    def pick(self, weights):
        """Index drawn with probability proportional to weight (exact: the caller walks
        the whole choice tree through ``self.rng``)."""
        if self.rng is None:
            raise Unsupported("random choice without an RNG back end")
        return self.rng(list(weights))

    def run_choose(self, s, inst):
        kind, items = s[0], s[1]
        remaining = [list(it) for it in items]
        while remaining:
            en = [it for it in remaining if self.enabled(it[0], inst)]
            if not en:
                raise Reject("reject", inst.name, "deadlock in do choose/shuffle")
            it = en[0] if len(en) == 1 else en[self.pick([w for _, w in en])]
            remaining.remove(it)
            if inst.kind == "scenario":
                yield from self.do_scenarios(inst, [it[0]])
            else:
                yield from self.do_behavior(inst, it[0])
            if kind == "choose":
                break
        return None

    # -- scenarios ---------------------------------------------------------------
    def prepare_scn(self, S, top=False):
        if not top:
            self.check_pre(S)
            self.check_inv(S)
            for st in S.defn["setup"]:
                self.exec_setup(S, st)

    def exec_setup(self, S, st):
        op = st[0]
        if (
            self.bugs.get("dynreq")
            and S is not getattr(self, "top", None)
            and op in ("termwhen", "termsimwhen", "record", "recordinitial", "recordfinal")
        ):
            # BUG MODEL (known-finding matcher, never the reference): requirement-like
            # statements executed while a simulation is running are all treated as
            # `require <condition>`
            k = st[1] if op in ("termwhen", "termsimwhen") else st[2]
            label = None if op in ("termwhen", "termsimwhen") else f"rec:{st[1]}"
            S.ltl.append([("atom", k), [], label])
            return
        if op == "new":
            self.create_object(S, st[1], st[2], st[3] if len(st) > 3 else [])
        elif op == "monitor":
            S.monitors.append(Inst(beh_def(self.p, st[1]), "monitor", parent=S))
        elif op == "termwhen":
            S.termwhen.append(st[1])
        elif op == "termsimwhen":
            S.termsimwhen.append(st[1])
        elif op == "termafter":
            S.limit = self.steps_of(st[1], st[2])
        elif op == "ltl":
            f = L.tup(st[1])
            if S is not getattr(self, "top", None) and not L.is_temporal(f):
                # setup block executed during the simulation: an ordinary requirement
                # is checked once, now
                if not L.holds(f, [{k: self.tab(k) for k in L.atoms_of(f)}]):
                    raise Reject("reject", S.name, "require in setup")
            else:
                S.ltl.append([f, [], None])
        elif op == "record":
            S.records.append((st[1], st[2]))
        elif op == "recordinitial":
            S.records_initial.append((st[1], st[2]))
        elif op == "recordfinal":
            S.records_final.append((st[1], st[2]))
        elif op == "require":
            if not self.tab(st[1]):
                raise Reject("reject", S.name, "require in setup")
        elif op == "override":
            self.do_override(S, st[1], st[2], st[3])
        elif op == "recordprop":
            S.records.append((st[1], ("prop", st[2], st[3])))
        elif op in ("fault", "rawrequire"):
            # rawrequire: a requirement on the initial scene only (top-level setup); it
            # decides which scenes are generated and plays no part in the simulation
            pass
        elif op == "ev":
            self.emit("ev", st[1])
        else:
            raise ValueError(op)

    def create_object(self, S, name, beh, extra):
        uid = len(self.objects)
        self.objects.append(uid)
        self.oname[uid] = name
        self.creator[uid] = S
        S.objvars[name] = uid
        for p, v in extra:
            self.props[(uid, p)] = v[2] if isinstance(v, list) else v
        if beh:
            self.behavior_of[uid] = beh
            S.agents.append(uid)
            self.agents.append(uid)
        else:
            self.behavior_of[uid] = None
        self.emit("create", name)

    def do_override(self, S, obj, prop, value):
        if obj == "ego" and obj not in S.objvars:
            # the ego is inherited from the parent scenario
            ego = self.p.get("ego")
            uid = next(u for u in self.objects if self.oname[u] == ego)
        else:
            uid = S.objvars[obj]
        old = self.props.get((uid, prop))
        if self.bugs.get("override_first_only") and any(o == uid for o, _, _ in S.overrides):
            pass  # BUG MODEL: only the first override statement per object is remembered
        else:
            S.overrides.append((uid, prop, old))
        self.props[(uid, prop)] = value
        self.emit("override", f"{obj}.{prop}={value}")

    def start_scn(self, S, top=False):
        S.running = True
        if top:
            self.check_pre(S)
            self.check_inv(S)
        S.elapsed = 0
        self.running_scn.append(S)
        # documented step (1c): a running scenario that is not inside a `do` has its
        # invariants checked every step; a scenario without a compose block but with
        # guards therefore behaves like `while True: wait`
        S.compose = S.defn["compose"]
        if S.compose is None and (S.defn.get("pre") or S.defn.get("inv")):
            S.compose = [["while", [["wait"]]]]
        if S.compose is not None:
            S.gen = self.run_block(S.compose, S)
        for name in S.agents:
            b = self.behavior_of[name]
            if isinstance(b, str):
                inst = Inst(beh_def(self.p, b), "behavior", agent=name, parent=S)
                inst.running = True
                self.check_pre(inst)
                self.check_inv(inst)
                inst.gen = self.run_block(inst.defn["body"], inst)
                self.behavior_of[name] = inst
        for m in S.monitors:
            m.running = True
            m.gen = self.run_block(m.defn["body"], m)

    def step_scn(self, S):
        """None if S keeps running, else the reason it stopped ('endsim' propagates)."""
        # (a) temporal requirements
        for req in S.ltl:
            f, tr, evlabel = req
            if evlabel:
                self.emit("ev", evlabel)
            tr.append({k: self.tab(k) for k in L.atoms_of(f)})
            if self.ltl_rejects_now(f, tr, self.t in self.hints.get("ltl_reject_steps", ())):
                raise Reject("ltl", S.name, L.render(f))
        # (b) time limit
        if S.limit is not None and S.elapsed >= S.limit:
            return self.stop_scn(S, "timelimit")
        S.elapsed += 1
        # (d) compose block
        done = False
        if S.compose is not None:
            if S.gen is None:
                done = True
            else:
                try:
                    sig = next(S.gen)
                except StopIteration:
                    S.gen = None
                    done = True
                else:
                    if sig[0] == "endsim":
                        self.stop_scn(S, "endsim")
                        return "endsim"
                    if sig[0] == "endscn":
                        return self.stop_scn(S, "terminate")
            if done:
                return self.stop_scn(S, "composedone")
        for k in S.termwhen:
            self.emit("cond", "tw")
            if self.tab(k):
                return self.stop_scn(S, "termwhen")
        return None

    def stop_scn(self, S, reason):
        assert S.running
        for m in S.monitors:
            m.running = False
        S.monitors = []
        for sub in S.subs:
            if sub.running:
                self.stop_scn(sub, "parent")
        S.subs = []
        S.gen = None
        for obj, prop, old in reversed(S.overrides):
            self.props[(obj, prop)] = old
        S.overrides = []
        S.running = False
        if S in self.running_scn:
            self.running_scn.remove(S)
        if not self.pins["agents_outlive_scenario"]:
            for name in S.agents:
                b = self.behavior_of.get(name)
                if isinstance(b, Inst):
                    b.gen = None
        for f, tr, _ in S.ltl:
            if not tr:
                if self.bugs.get("rvltl"):
                    # (attribution runs only: a monitor that was never updated still holds
                    # its initial verdict "true", so the implementation accepts)
                    continue
                # scenario started and stopped without ever being stepped: the trace of
                # its requirement is empty, finite-trace semantics says nothing
                raise Unsupported("temporal requirement with empty trace")
            if not self.ltl_accepts_at_end(f, tr):
                raise Reject("ltl", S.name, "final:" + L.render(f))
        return reason

    # -- temporal requirement verdicts ------------------------------------------------
    def ltl_rejects_now(self, f, tr, impl_rejected_here):
        """Early rejection.  Reference: *required* for `always <non-temporal>` that is
        false now; *permitted* (follow the implementation) whenever no continuation of the
        trace can satisfy the formula; forbidden otherwise."""
        if self.bugs.get("rvltl"):
            return L.rv_eval(f, tr, 0, not self.bugs.get('rvltl_nobug')) == 1  # BUG MODEL: whatever rv_ltl 0.1.0 says
        if L.can_be_satisfied(f, tr):
            return False
        must = f[0] == "always" and not L.is_temporal(f[1])
        return must or impl_rejected_here

    def ltl_accepts_at_end(self, f, tr):
        if self.bugs.get("rvltl"):
            return L.rv_eval(f, tr, 0, not self.bugs.get('rvltl_nobug')) >= 3  # BUG MODEL
        return L.holds(f, tr)

    def do_scenarios(self, S, names):
        subs = []
        for n in names:
            sub = Inst(scn_def(self.p, n), "scenario", parent=S)
            self.prepare_scn(sub)
            self.start_scn(sub)
            subs.append(sub)
        S.subs = subs
        while True:
            new = []
            for sub in S.subs:
                r = self.step_scn(sub)
                if r == "endsim":
                    yield ("endsim",)
                    raise AssertionError("resumed after endsim")
                if r is None:
                    new.append(sub)
            S.subs = new
            if not new:
                return None
            yield ("act", ())
            S.subs = [x for x in S.subs if x.running]

    def eval_records(self, S, which, out):
        for name, k in getattr(S, which):
            if isinstance(k, tuple):  # ("prop", object name, property)
                out[name] = self.prop_lookup(k[1], k[2])
                continue
            self.emit("ev", f"rec:{name}")
            out[name] = self.tab(k)
        for sub in S.subs:
            # a sub-scenario stopped by `do ... until/for` stays listed until the parent's
            # next `do`; whether its records are still saved is not documented (pin)
            if sub.running or self.pins["stale_sub_records"]:
                self.eval_records(sub, which, out)

    def prop_lookup(self, name, p):
        for uid in reversed(self.objects):
            if self.oname[uid] == name:
                return self.props.get((uid, p))
        return None

    def run_monitors(self, S):
        reason = None
        endscn = False
        for m in S.monitors:
            sig = self.step_inst(m)
            if sig[0] == "endsim":
                reason = "endsim"
            elif sig[0] == "endscn":
                endscn = True
        for sub in S.subs:
            r = self.run_monitors(sub)
            # documented step 3: a monitor's `terminate` stops "the scenario which
            # instantiated it as in step (1e)", i.e. a sub-scenario returns to its parent;
            # only `terminate simulation` propagates upwards
            if r == "endsim":
                reason = r
        if endscn:
            self.stop_scn(S, "monitor-terminate")
        return reason or ("endscn" if endscn else None)

    def step_inst(self, inst):
        if inst.gen is None:
            return ("act", ())
        try:
            return next(inst.gen)
        except StopIteration:
            inst.gen = None
            return ("act", ())

    # -- main loop ---------------------------------------------------------------
    def run(self):
        try:
            out = self._run()
        except Reject as e:
            self.emit("destroy")
            kind = e.kind
            if kind not in ("precondition", "invariant") or not self.raise_guards:
                kind = "reject"
            return {
                "kind": kind,
                "why": e.kind,
                "who": e.who,
                "time": self.t,
                "log": self.log,
            }
        return out

    def _run(self):
        p = self.p
        top = Inst(scn_def(p, p["top"]), "scenario")
        self.top = top
        # the top-level setup block ran at compile time: objects etc. already exist
        saved_log = self.log
        self.log = []
        try:
            for st in top.defn["setup"]:
                self.exec_setup(top, st)
        except Reject:
            return {"kind": "scene-reject", "time": 0, "log": []}
        self.log = saved_log
        # a top-level temporal requirement is also evaluated once at scene generation
        for f, _, _ in top.ltl:
            tr0 = [{k: self.tab(k) for k in L.atoms_of(f)}]
            if self.ltl_rejects_now(f, tr0, bool(self.hints.get("scene_reject"))):
                return {"kind": "scene-reject", "time": 0, "log": []}
        for uid in self.objects:
            self.emit("create", self.oname[uid])
        self.start_scn(top, top=True)
        self.get_properties()
        ttype = None
        while True:
            reason = self.step_scn(top)
            ttype_c = "scenarioComplete"
            # (2) records
            if self.t == 0:
                vals = {}
                self.eval_records(top, "records_initial", vals)
                self.records.update(vals)
            vals = {}
            self.eval_records(top, "records", vals)
            for n, v in vals.items():
                self.records.setdefault(n, []).append((self.t, v))
            self.ntraj += 1
            # (3) monitors
            r2 = self.run_monitors(top)
            if r2 is not None:
                reason = r2
                ttype_c = "terminatedByMonitor"
            # (4) termination checks
            if reason is not None:
                ttype = ttype_c
                break
            hit = False
            for k in top.termsimwhen:
                self.emit("cond", "tsw")
                if self.tab(k):
                    hit = True
                    break
            if hit:
                ttype = "simulationTerminationCondition"
                break
            if self.max_steps and self.t >= self.max_steps:
                ttype = "timeLimit"
                break
            # (5) behaviors
            order = self.schedule_now()
            self.emit("schedule", ",".join(self.oname[u] for u in order))
            acts = []
            stop = False
            for name in order:
                b = self.behavior_of.get(name)
                if not isinstance(b, Inst):
                    continue
                sig = self.step_inst(b)
                if sig[0] == "endsim":
                    ttype = "terminatedByBehavior"
                    stop = True
                    break
                if sig[0] == "endscn":
                    S = self.creator[name]
                    if not S.running:
                        # "terminate" by an agent whose creating scenario has already
                        # ended: the documentation does not say what this means
                        raise Unsupported("terminate in a behavior whose scenario has ended")
                    self.stop_scn(S, "behavior-terminate")
                    if S is top:
                        ttype = "terminatedByBehavior"
                        stop = True
                        break
                    sig = ("act", ())
                acts.append((self.oname[name], list(sig[1])))
            if stop:
                break
            # (6) actions
            self.actions.append(acts)
            self.emit("executeActions", ";".join(f"{n}:{'+'.join(ls)}" for n, ls in acts))
            for n, ls in acts:
                for lab in ls:
                    self.emit("apply", f"{n}:{lab}")
            # (7)-(9)
            self.emit("step")
            self.t += 1
            self.get_properties()
        # (10) termination
        for S in list(reversed(self.running_scn)):
            if S.running:
                self.stop_scn(S, "simulation terminated")
        vals = {}
        self.eval_records(top, "records_final", vals)
        self.records.update(vals)
        self.emit("destroy")
        return {
            "kind": "ok",
            "time": self.t,
            "log": self.log,
            "actions": self.actions,
            "ntraj": self.ntraj,
            "termtype": ttype,
            "records": self.records,
        }

    def get_properties(self):
        for uid in self.objects:
            self.emit("getProperties", self.oname[uid])

    def schedule_now(self):
        agents = list(self.agents)
        sched = self.schedule
        if self.t < len(sched) and sched[self.t] is not None:
            items = list(agents)
            out = []
            for c in sched[self.t]:
                if not items:
                    break
                out.append(items.pop(c % len(items)))
            out.extend(items)
            agents = out
        return agents
