"""Independent geometry oracle of the GEO fragment (used by C02); own numpy arithmetic only.

Everything here either *exhibits a witness with a margin* (a point strictly inside two solids, a
point of an object outside its container, a separating axis with a positive gap) or says
"unjudged".  Nothing calls obj.intersects / region.containsObject / canSee.

  Body(obj)               pose + extent of a sampled object read from its sampled properties
  sat_gap(A, B)           15-axis separating-axis test on the oriented boxes: > 0 separated by that
                          gap (a proof of disjointness for whatever is inside the boxes), < 0 every
                          axis overlaps by at least that much (two boxes then intersect)
  inside(tris, P)         ray-parity point-in-mesh, three fixed irrational directions, unanimous
  overlap_witness(A, B)   point strictly inside both solids (margin), or None
  container_ref(spec)     membership predicate of a container written by the generator
  seg_hits / shadowed     segment-vs-oriented-box slab test; proof that a body is completely hidden behind a box
"""

import math

import numpy as np

from . import regionref as rr

DIRS = np.array([[0.5381, 0.2113, 0.8159], [-0.3217, 0.9031, 0.2841], [0.7411, -0.5523, -0.3819]])
DIRS /= np.linalg.norm(DIRS, axis=1)[:, None]
GRID = np.array([[x, y, z] for x in (-1, 0, 1) for y in (-1, 0, 1) for z in (-1, 0, 1)], float)
OFFS = np.concatenate([np.zeros((1, 3)), np.eye(3), -np.eye(3)])


class Body:
    """Oriented bounding box (centre, axes, half extents) of a sampled object + lazily its mesh."""

    def __init__(self, obj, shape):
        self.obj, self.shape = obj, shape
        self.c = np.array([obj.position.x, obj.position.y, obj.position.z], float)
        self.R = np.array(obj.orientation.r.as_matrix(), float)  # columns: width, length, height axes
        self.h = np.array([obj.width, obj.length, obj.height], float) / 2
        self.size = float(2 * self.h.max())
        self._tris = None

    @property
    def tris(self):
        if self._tris is None:
            self._tris = np.array(self.obj.occupiedSpace.mesh.triangles, float)
        return self._tris

    def local(self, P):
        return (P - self.c) @ self.R

    def points(self):
        """Points of the solid: the 27-point grid of a box (own arithmetic), mesh vertices otherwise."""
        if self.shape == "box":
            return self.c + (GRID * self.h) @ self.R.T
        return np.array(self.obj.occupiedSpace.mesh.vertices, float)

    def describe(self):
        return {"shape": self.shape, "position": [round(float(x), 6) for x in self.c],
                "half_extents": [round(float(x), 6) for x in self.h],
                "axes": [[round(float(x), 6) for x in r] for r in self.R.T]}


def sat_gap(A, B):
    axes = [A.R[:, i] for i in range(3)] + [B.R[:, i] for i in range(3)]
    for i in range(3):
        for j in range(3):
            x = np.cross(A.R[:, i], B.R[:, j])
            n = np.linalg.norm(x)
            if n > 1e-6:
                axes.append(x / n)
    ax = np.array(axes)
    ra = np.abs(ax @ A.R) @ A.h
    rb = np.abs(ax @ B.R) @ B.h
    return float((np.abs(ax @ (B.c - A.c)) - ra - rb).max())


def inside(tris, P):
    """Unanimous odd ray parity along DIRS (Moeller-Trumbore, vectorised)."""
    if not len(P):
        return np.zeros(0, bool)
    v0, e1, e2 = tris[:, 0], tris[:, 1] - tris[:, 0], tris[:, 2] - tris[:, 0]
    tv = P[:, None, :] - v0[None]
    q = np.cross(tv, e1[None])
    ok = np.ones(len(P), bool)
    for d in DIRS:
        pv = np.cross(d, e2)
        det = (e1 * pv).sum(axis=1)
        good = np.abs(det) > 1e-14
        inv = np.where(good, 1.0 / np.where(good, det, 1.0), 0.0)
        u = (tv * pv[None]).sum(axis=2) * inv
        v = (q @ d) * inv
        t = (q * e2[None]).sum(axis=2) * inv
        hit = good[None] & (u >= 0) & (v >= 0) & (u + v <= 1) & (t > 0)
        ok &= (hit.sum(axis=1) & 1) == 1
    return ok


def overlap_witness(A, B, margin, rng, nsamples=300):
    """A point whose whole +-margin cross lies inside both solids, or None (never a claim of disjointness)."""
    pa, pb = A.points(), B.points()
    ca, cb = pa.mean(axis=0), pb.mean(axis=0)
    seg = ca + np.linspace(0, 1, 17)[:, None] * (cb - ca)
    smp = A.c + ((rng.random((nsamples, 3)) * 2 - 1) * A.h) @ A.R.T
    smp2 = B.c + ((rng.random((nsamples, 3)) * 2 - 1) * B.h) @ B.R.T
    P = np.concatenate([seg, A.c[None], B.c[None], pa, pb, smp, smp2])
    keep = (np.abs(A.local(P)) <= A.h - margin).all(axis=1) & (np.abs(B.local(P)) <= B.h - margin).all(axis=1)
    P = P[keep][:400]
    if not len(P):
        return None
    both = inside(A.tris, P) & inside(B.tris, P)
    for p in P[both][:6]:
        cross = p + margin * OFFS
        if inside(A.tris, cross).all() and inside(B.tris, cross).all():
            return [float(x) for x in p]
    return None


def container_ref(spec):
    """Membership predicate (regionref signed distance) of a container description from the generator.
    2D regions constrain the footprint only (docs: glossary 'footprint', reference/region_types)."""
    k = spec["kind"]
    if k == "diff":  # mesh volume minus the (infinitely tall) footprint of a 2D region
        return rr.Comp("difference", container_ref(spec["A"]), container_ref(spec["B"]))
    if k == "box":
        return rr.BoxRef(spec["dims"], spec["pos"], (spec["yaw"], 0.0, 0.0))
    if k == "rect":
        ref = rr.RectRef((spec["pos"][0], spec["pos"][1], 0.0), spec["heading"], spec["w"], spec["l"])
    else:
        ref = rr.PolyRef([np.array(spec["points"], float)], (0.0, 0.0, 0.0))
    ref.zfree = True
    return ref


def seg_hits(p, Q, B, shrink):
    """Per point q of Q: does the segment p->q meet B's oriented box shrunk by `shrink` (grown if negative)?  Slab test in B's frame."""
    h = B.h - shrink
    a, D = B.local(np.asarray(p, float)[None])[0], B.local(np.asarray(Q, float)) - B.local(np.asarray(p, float)[None])[0]
    with np.errstate(divide="ignore", invalid="ignore"):
        t1, t2 = (-h - a) / D, (h - a) / D
    par, ins = D == 0, np.abs(a) <= h
    lo = np.where(par, np.where(ins, -np.inf, np.inf), np.minimum(t1, t2))
    hi = np.where(par, np.where(ins, np.inf, -np.inf), np.maximum(t1, t2))
    return (h > 0).all() & (np.maximum(lo.max(axis=1), 0) <= np.minimum(hi.min(axis=1), 1))


def shadowed(cam, T, W, margin):
    """Proof that T is completely hidden from cam by the box W: cam is outside W and the segments to all 8 corners of T's bounding
    box pass through W shrunk by the margin (the set of points behind a convex body is convex, so every point of T is behind W)."""
    corners = T.c + (GRID[(GRID != 0).all(axis=1)] * T.h) @ T.R.T
    return bool((np.abs(W.local(np.asarray(cam, float)[None])[0]) > W.h + margin).any() and seg_hits(cam, corners, W, margin).all())


def convex(spec):
    if spec["kind"] == "diff":
        return False
    if spec["kind"] != "poly":
        return True
    p = np.array(spec["points"], float)
    a, b = np.roll(p, -1, axis=0) - p, np.roll(p, -2, axis=0) - np.roll(p, -1, axis=0)
    z = a[:, 0] * b[:, 1] - a[:, 1] * b[:, 0]
    return bool((z > 0).all() or (z < 0).all())


def camera_distance(cam, B, planar):
    """Lower bound of the distance from the camera to anything inside B's oriented box
    (planar: distance in the xy plane to the box footprint, for 2D mode where objects are upright)."""
    d = np.maximum(np.abs(B.local(np.asarray(cam, float)[None])[0]) - B.h, 0)
    return float(math.hypot(d[0], d[1]) if planar else np.linalg.norm(d))
