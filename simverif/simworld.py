"""SimWorld: the in-process stub peer (the external simulator).

Deterministic kinematics; every interface call is appended to the run's event log;
every interface method is a fault site; the agent schedule of every step is decided
by the simulator (supplied up front as a list of permutations, one per step, drawn
from the run's tape); a perturbation knob adds a delta to one dynamic property at
one step (for replay-divergence checks).
"""

import scenic.core.dynamics as _dyn
from scenic.core.simulators import Simulation, Simulator
from scenic.core.vectors import Vector

from . import userlib
from .userlib import CTX, fault

# The real-time watchdog (SIGALRM) must never run inside the simulation:
# ``alarm(0, ...)`` is a no-op by construction of scenic.core.utils.alarm.
_dyn.stuckBehaviorWarningTimeout = 0


def oname(obj):
    n = getattr(obj, "name", None)
    return n if isinstance(n, str) else "?"


class SimWorld(Simulator):
    def __init__(self, schedule=None, perturb=None, log_props=False, drift=(0.0, 0.0, 0.0)):
        super().__init__()
        self.schedule = schedule or []  # list (per step) of permutations (index lists)
        self.perturb = perturb  # (step, object index, prop, delta) or None
        self.log_props = log_props
        self.drift = drift
        self.last = None

    def createSimulation(self, scene, **kwargs):
        sim = SimWorldSimulation.__new__(SimWorldSimulation)
        self.last = sim
        sim.world = self
        SimWorldSimulation.__init__(sim, scene, **kwargs)
        return sim


class SimWorldSimulation(Simulation):
    def __init__(self, scene, **kwargs):
        self.world_vel = {}
        self.sched_log = []
        self._prev_ctx_sim = CTX.sim
        CTX.sim = self
        try:
            super().__init__(scene, **kwargs)
        finally:
            CTX.sim = self._prev_ctx_sim

    # -- interface ---------------------------------------------------------
    def createObjectInSimulator(self, obj):
        CTX.log.append((self.currentTime, "create", oname(obj)))
        fault("createObject")
        self.world_vel.setdefault(id(obj), self.world.drift)

    def scheduleForAgents(self):
        t = self.currentTime
        agents = list(self.agents)
        sched = self.world.schedule
        if t < len(sched) and sched[t] is not None:
            # Lehmer code -> permutation of the current agent list
            code = sched[t]
            items = list(agents)
            out = []
            for c in code:
                if not items:
                    break
                out.append(items.pop(c % len(items)))
            out.extend(items)
            agents = out
        self.sched_log.append(tuple(oname(a) for a in agents))
        CTX.log.append((t, "schedule", ",".join(oname(a) for a in agents)))
        fault("schedule")
        # the documented return type is "an iterable which is a permutation of self.agents":
        # hand it over as a list, a tuple or a one-shot iterator (decided by the schedule code,
        # so that it replays and shrinks with it)
        kind = (sum(sched[t]) % 3) if t < len(sched) and sched[t] else 0
        if kind == 1:
            return tuple(agents)
        if kind == 2:
            return iter(agents)
        return agents

    def actionsAreCompatible(self, agent, actions):
        return True

    def executeActions(self, allActions):
        CTX.log.append(
            (
                self.currentTime,
                "executeActions",
                ";".join(
                    f"{oname(a)}:{'+'.join(str(getattr(x, 'label', x)) for x in acts)}"
                    for a, acts in allActions.items()
                ),
            )
        )
        fault("executeActions")
        super().executeActions(allActions)

    def step(self):
        CTX.log.append((self.currentTime, "step", ""))
        fault("step")
        dt = self.timestep
        for obj in self.objects:
            v = self.world_vel.get(id(obj), (0.0, 0.0, 0.0))
            if v != (0.0, 0.0, 0.0):
                obj.position = obj.position + Vector(v[0] * dt, v[1] * dt, v[2] * dt)

    def getProperties(self, obj, properties):
        CTX.log.append((self.currentTime, "getProperties", oname(obj)))
        fault("getProperties")
        v = self.world_vel.get(id(obj), (0.0, 0.0, 0.0))
        vel = Vector(*v)
        vals = dict(
            position=obj.position,
            yaw=obj.yaw,
            pitch=obj.pitch,
            roll=obj.roll,
            velocity=vel,
            angularVelocity=Vector(0, 0, 0),
            speed=float(vel.norm()),
            angularSpeed=0.0,
        )
        p = self.world.perturb
        if p is not None:
            step, oi, prop, delta = p
            if self.currentTime == step and oi < len(self.objects) and self.objects[oi] is obj:
                if prop == "position":
                    vals["position"] = vals["position"] + Vector(delta, 0, 0)
                elif prop == "velocity":
                    vals["velocity"] = vals["velocity"] + Vector(0, delta, 0)
                else:
                    vals[prop] = vals[prop] + delta
                CTX.log.append((self.currentTime, "perturb", f"{oname(obj)}.{prop}{delta:+}"))
        for prop in properties:
            if prop not in vals:
                vals[prop] = None
        return vals

    def destroy(self):
        CTX.log.append((self.currentTime, "destroy", ""))
        fault("destroy")
        super().destroy()
