"""Seeded generator of DYN programs (abstract syntax of simverif.dyn).

Everything is drawn from the run's tape; value 0 always selects the simplest option.
``feat`` (dict of integer weights / bounds) selects the fragment a check wants.
"""

from decimal import Decimal
from fractions import Fraction

TIMESTEPS = ["1", "0.5", "0.1", "0.3", "0.25", "2"]

DEFAULT_FEAT = dict(
    max_steps=(3, 9),
    n_behaviors=(1, 3),
    n_monitors=(0, 2),
    n_agents=(1, 3),
    n_subscenarios=(0, 2),
    modular=1,  # weight of a modular (scenario Main) top level vs flat
    flat=1,
    block_len=(1, 4),
    depth=3,
    # statement weights
    w_ev=3,
    w_take=4,
    w_wait=2,
    w_waitfor=1,
    w_waituntil=1,
    w_do=2,
    w_do_for=1,
    w_do_until=1,
    w_terminate=1,
    w_terminatesim=1,
    w_require=1,
    w_if=2,
    w_loop=1,
    w_while=1,
    w_try=0,
    w_override=0,
    # setup-level features (probability numerators out of 8)
    p_termwhen=2,
    p_termsimwhen=2,
    p_termafter=2,
    p_ltl=2,
    p_record=3,
    p_guards=0,  # preconditions / invariants on behaviors and scenarios
    p_grej=0,  # guards that raise a rejection
    p_sub_setup_reqs=1,  # termwhen / record ... inside dynamically invoked sub-scenarios
    seconds=2,  # out of 8: durations given in seconds
    ltl_simple=True,
)


class Gen:
    def __init__(self, tape, feat=None):
        self.t = tape
        self.f = dict(DEFAULT_FEAT)
        if feat:
            self.f.update(feat)
        self.ntab = 0
        self.roles = {}
        self.nlab = 0
        self.uses_grej = False

    # -- small helpers -----------------------------------------------------
    def rng(self, key, label=None):
        lo, hi = self.f[key]
        return self.t.intrange(lo, hi, label or key)

    def table(self, role):
        k = self.ntab
        self.ntab += 1
        self.roles[k] = role
        return k

    def label(self, owner):
        self.nlab += 1
        return f"{owner}.{self.nlab}"

    def duration(self, lo=1, hi=4):
        n = self.t.intrange(lo, hi, "dur")
        if self.t.chance(self.f["seconds"], 8, "dur.seconds"):
            sec = Fraction(n) * Fraction(self.timestep)
            if self.t.chance(1, 2, "dur.nonmultiple"):
                # not a multiple of the time step: the statement lasts until the first step
                # at which that many simulated seconds have elapsed (still n steps)
                sec -= Fraction(self.t.choice([1, 2, 3], "dur.frac"), 4) * Fraction(self.timestep)
            return [str(Decimal(sec.numerator) / Decimal(sec.denominator)), "seconds"]
        return [n, "steps"]

    def guard(self):
        k = self.table("guard")
        if self.f["p_grej"] and self.t.chance(self.f["p_grej"], 8, "grej"):
            self.uses_grej = True
            return ["rej", k]
        return k

    def guards(self, d):
        d["pre"], d["inv"] = [], []
        if self.f["p_guards"]:
            if self.t.chance(self.f["p_guards"], 8, "pre?"):
                d["pre"].append(self.guard())
            if self.t.chance(self.f["p_guards"], 8, "inv?"):
                d["inv"].append(self.guard())

    # -- blocks ------------------------------------------------------------------
    def block(self, ctx, owner, depth, callees, in_loop=False, in_handler=False, must_yield=False):
        """ctx: 'behavior' | 'monitor' | 'compose'."""
        n = self.rng("block_len", "blocklen")
        out = []
        if must_yield:
            out.append(self.yielding(ctx, owner))
        for _ in range(n):
            if self.f.get("p_fault_stmt") and self.t.chance(self.f["p_fault_stmt"], 8, "fault?"):
                out.append(["fault", "handler" if in_handler else ctx])
            st = self.stmt(ctx, owner, depth, callees, in_loop, in_handler)
            bv = getattr(self, "bindvar", None)
            if bv and ctx == "behavior" and depth > 0 and self.t.chance(1, 4, "abandon_reuse?"):
                # a bound behavior instance is started under a block that a handler abandons,
                # and invoked again afterwards (sub-behaviours of abandoned blocks are stopped)
                inst = f"@{bv[0]}:{bv[1]}"
                self.bind_used = True
                out.append(["try", [["do", [inst], None]],
                            [[self.table("cond"), [self.yielding(ctx, owner), ["abort"]]]]])
                out.append(["do", [inst], None])
            out.append(st)
            if st[0] in ("terminate", "terminatesim", "abort", "break", "continue", "return"):
                break
        return out

    def yielding(self, ctx, owner):
        if ctx == "behavior" and self.t.chance(1, 2, "yield.take"):
            return ["take", self.label(owner)]
        return ["wait"]

    def stmt(self, ctx, owner, depth, callees, in_loop, in_handler):
        f = self.f
        opts = [("ev", f["w_ev"]), ("wait", f["w_wait"])]
        if ctx == "behavior":
            opts.append(("take", f["w_take"]))
        opts += [("waitfor", f["w_waitfor"]), ("waituntil", f["w_waituntil"]), ("require", f["w_require"])]
        opts += [("terminate", f["w_terminate"]), ("terminatesim", f["w_terminatesim"])]
        if callees and ctx != "monitor":
            opts += [("do", f["w_do"]), ("do_for", f["w_do_for"]), ("do_until", f["w_do_until"])]
        if depth > 0:
            opts += [("if", f["w_if"]), ("loop", f["w_loop"]), ("while", f["w_while"])]
            if ctx != "monitor":
                opts.append(("try", f["w_try"]))
        if in_handler:
            opts.append(("abort", max(1, f["w_try"])))
        if in_loop:
            opts += [("break", 1), ("continue", 1)]
        if (in_handler or in_loop) and ctx == "behavior":
            opts.append(("return", 1))
        if ctx == "compose" and f["w_override"] and self.objs_visible:
            opts.append(("override", f["w_override"]))
        if ctx == "compose" and f.get("w_requireltl"):
            opts.append(("requireltl", f["w_requireltl"]))
        if callees and ctx != "monitor" and f.get("w_choose"):
            opts += [("choose", f["w_choose"]), ("shuffle", f.get("w_shuffle", 0))]
        if f.get("w_draw"):
            opts.append(("draw", f["w_draw"]))
        opts = [(o, w) for o, w in opts if w > 0]
        op = opts[self.t.weighted([w for _, w in opts], "stmt")][0]
        if op == "ev":
            return ["ev", self.label(owner)]
        if op == "take":
            return ["take", self.label(owner)]
        if op == "wait":
            return ["wait"]
        if op == "waitfor":
            d = self.duration(1, 3)
            return ["waitfor", d[0], d[1]]
        if op == "waituntil":
            return ["waituntil", self.table("cond")]
        if op == "require":
            return ["require", self.table("guard")]
        if op in ("terminate", "terminatesim", "abort", "break", "continue", "return"):
            return [op]
        if op in ("do", "do_for", "do_until"):
            if ctx == "compose":
                k = 1 + (self.t.draw(min(2, len(callees)), "do.n") if len(callees) > 1 else 0)
                names = []
                pool = list(callees)
                for _ in range(k):
                    names.append(pool.pop(self.t.draw(len(pool), "do.which")))
            else:
                names = [self.t.choice(callees, "do.which")]
                bv = getattr(self, "bindvar", None)
                if bv and bv[1] == names[0] and self.t.chance(2, 3, "do.instance"):
                    # invoke the behavior *instance* bound at the start of the body again
                    names = [f"@{bv[0]}:{bv[1]}"]
                    self.bind_used = True
            if op == "do":
                mod = None
            elif op == "do_for":
                d = self.duration(1, 4)
                mod = ["for", d[0], d[1]]
            elif self.f.get("p_until_random") and self.t.chance(self.f["p_until_random"], 8, "until.random?"):
                # the condition itself draws a random value every time it is evaluated
                mod = ["untilrnd", self.t.intrange(2, 3, "until.rnd.n")]
            else:
                mod = ["until", self.table("cond")]
            return ["do", names, mod]
        if op == "if":
            k = self.table("free")
            then = self.block(ctx, owner, depth - 1, callees, in_loop, in_handler)
            els = self.block(ctx, owner, depth - 1, callees, in_loop, in_handler) if self.t.chance(1, 2, "else?") else []
            return ["if", k, then, els]
        if op == "loop":
            n = self.t.intrange(1, 3, "loop.n")
            return ["loop", n, self.block(ctx, owner, depth - 1, callees, True, False)]
        if op == "while":
            return ["while", self.block(ctx, owner, depth - 1, callees, True, False, must_yield=True)]
        if op == "try":
            if ctx == "compose" and self.f.get("compose_try_waits_only"):
                callees = []
            # Two shapes of nested try-interrupt are known not to compile (findings
            # nested-try-*): an inner statement with more handlers than an enclosing one,
            # and break/continue inside an inner statement.  They are still generated,
            # but rarely, so that most of the budget reaches the runtime.
            stack = getattr(self, "try_stack", [])
            avoid = bool(stack) and not self.t.chance(1, 8, "try.knownbad")
            nh = self.t.intrange(1, min(stack) if avoid else 3, "try.nh")
            inner_loop = False if avoid else in_loop
            self.try_stack = stack + [nh]
            body = self.block(ctx, owner, depth - 1, callees, inner_loop, False)
            hs = []
            for _ in range(nh):
                hb = self.block(ctx, owner, depth - 1, callees, inner_loop, True, must_yield=True)
                hs.append([self.table("cond"), hb])
            self.try_stack = stack
            # break/continue inside try blocks refer to the loop enclosing the statement
            return ["try", body, hs]
        if op == "requireltl":
            return ["requireltl", self.ltl_formula()]
        if op in ("choose", "shuffle"):
            n = self.t.intrange(2, 4, "choose.n")
            dictform = self.t.chance(1, 2, "choose.dict")
            items = []
            for _ in range(n):
                pool = [c for c in callees if not dictform or c not in [i[0] for i in items]]
                if not pool:
                    break
                name = self.t.choice(pool, "choose.which")
                items.append([name, self.t.intrange(1, 4, "choose.w") if dictform else 1])
            return [op, items, bool(dictform)]
        if op == "draw":
            form = self.t.choice(["uniform", "options", "range"], "draw.form")
            k = self.t.intrange(2, 3, "draw.k")
            base = self.t.intrange(0, 5, "draw.base")
            if self.f.get("draw_edges") and self.t.chance(1, 2, "draw.edge"):
                # values around the width boundaries of the integer codec
                base = self.t.choice([251, 252, 253, 32766, -32770, 2147483646], "draw.edge.base")
            if form == "options":
                vals = [[base + i, self.t.intrange(1, 3, "draw.w")] for i in range(k)]
            else:
                vals = [[base + i, 1] for i in range(k)]
            return ["draw", vals, self.label(owner), form]
        if op == "override":
            obj = self.t.choice(self.objs_visible, "ovr.obj")
            if self.f.get("override_behavior") and self.beh_names_all and self.t.chance(1, 3, "ovr.behavior"):
                # (the reference does not model behavior overrides: such programs are only
                # judged by the state invariants of C14)
                self.has_behavior_override = True
                return ["override", obj, "behavior", ["raw", self.t.choice(self.beh_names_all, "ovr.beh") + "()"]]
            prop = self.t.choice(["foo", "bar"], "ovr.prop")
            return ["override", obj, prop, self.t.intrange(10, 99, "ovr.val")]
        raise AssertionError(op)

    # -- whole program -----------------------------------------------------------
    def program(self):
        t, f = self.t, self.f
        self.timestep = t.choice(TIMESTEPS, "timestep")
        max_steps = self.rng("max_steps")
        nb = self.rng("n_behaviors")
        nm = self.rng("n_monitors")
        ns = self.rng("n_subscenarios")
        modular = t.weighted([f["flat"], f["modular"]], "modular") == 1 or ns > 0
        self.objs_visible = []
        beh_names = [f"B{i}" for i in range(nb)]
        self.beh_names_all = beh_names
        self.has_behavior_override = False
        behaviors = []
        for i in reversed(range(nb)):
            d = {"kind": "behavior", "name": beh_names[i]}
            self.guards(d)
            callees = beh_names[i + 1 :]
            self.bindvar, self.bind_used = None, False
            if callees and f.get("p_bind_instance") and t.chance(f["p_bind_instance"], 8, "bind?"):
                self.bindvar = (f"_b{i}", t.choice(callees, "bind.which"))
            role = None
            if f.get("p_flags") and i > 0 and t.chance(f["p_flags"], 8, "flag.role?"):
                role = t.choice(["unlock", "gated"], "flag.role")
            if role == "unlock":
                # finishes without consuming a time step and changes state that the precondition
                # of a "gated" behavior reads: eligibility has to be evaluated at every pick
                d["pre"], d["inv"] = [], []
                d["body"] = [["setflag", "f0"], ["ev", self.label(beh_names[i])],
                             ["if", self.table("never"), [["wait"]], []]]
                self.bindvar = None
                behaviors.insert(0, d)
                continue
            if role == "gated":
                d["pre"].append(["flag", "f0"])
            d["body"] = ensure_generator(self.block("behavior", beh_names[i], f["depth"], callees))
            if self.bind_used:
                d["body"].insert(0, ["bind", self.bindvar[0], self.bindvar[1]])
            self.bindvar = None
            behaviors.insert(0, d)
        monitors = []
        for i in range(nm):
            name = f"M{i}"
            body = ensure_generator(self.block("monitor", name, max(1, f["depth"] - 1), []))
            monitors.append({"kind": "monitor", "name": name, "body": body})
        scn_names = ["Main"] + [f"S{i}" for i in range(1, ns + 1)]
        scenarios = []
        objpos = {}
        nobj = 0
        all_objs = []
        # `ego` (the first object of the top level) is the one name under which a sub-scenario
        # can reach an object of its parent: nested overrides of the same property
        use_ego = bool(modular and f.get("p_ego") and f["w_override"] and t.chance(f["p_ego"], 8, "ego?"))
        for i in reversed(range(len(scn_names))):
            name = scn_names[i]
            top = i == 0
            d = {"name": name}
            if top and not modular:
                d["pre"], d["inv"] = [], []  # a flat top level cannot carry guards
            else:
                self.guards(d)
            setup = []
            na = self.rng("n_agents") if top else t.intrange(0, 2, "sub.nagents")
            myobjs = []
            for _ in range(na):
                on = f"a{nobj}"
                nobj += 1
                objpos[on] = (3 * nobj, 5 * i)
                beh = t.choice(beh_names, "agent.beh") if (top and not myobjs) or t.chance(3, 4, "agent.hasbeh") else None
                extra = [["foo", 1], ["bar", 2]] if f["w_override"] else []
                random_prop = bool(f.get("p_spec_fault") and t.chance(f["p_spec_fault"], 8, "spec.fault?"))
                if random_prop:
                    extra = extra + [["baz", ["raw", "fspec(DiscreteRange(0, 1))", 1]]]
                setup.append(["new", on, beh, extra])
                if not (top and random_prop):
                    # (a compose block cannot refer to a non-ego object of its own scenario
                    # that has random properties: the name still denotes the unsampled
                    # object -- outside every listed property, so it is not generated)
                    myobjs.append(on)
                all_objs.append(on)
                # (overriding an object that has a behavior in the very setup block that
                # creates it starts the behavior on the object instead of its proxy and is
                # then refused as "reuse of a behavior object": not generated)
                if not top and beh is None and f["w_override"] and t.chance(1, 3, "setup.override?"):
                    setup.append(["override", on, t.choice(["foo", "bar"], "ovr.prop"), t.intrange(10, 99, "ovr.val")])
            if not top and f.get("p_fault_stmt") and t.chance(f["p_fault_stmt"], 8, "setup.fault?"):
                setup.append(["fault", "setup"])
            if top or f["p_sub_setup_reqs"]:
                scale = 8 if top else 8 * 8 // max(1, f["p_sub_setup_reqs"])
                if nm and t.chance(3, 8, "mon?"):
                    for m in monitors:
                        if t.chance(1, 2, "mon.use"):
                            setup.append(["monitor", m["name"]])
                if t.chance(f["p_termwhen"], scale, "tw?"):
                    setup.append(["termwhen", self.table("cond")])
                if top and t.chance(f["p_termsimwhen"], scale, "tsw?"):
                    setup.append(["termsimwhen", self.table("cond")])
                if t.chance(f["p_record"], scale, "rec?"):
                    kind = t.choice(["record", "recordinitial", "recordfinal"], "rec.kind")
                    setup.append([kind, f"r{name}{len(setup)}", self.table("free")])
            if t.chance(f["p_termafter"], 8, "ta?"):
                dur = self.duration(1, 5)
                setup.append(["termafter", dur[0], dur[1]])
            if t.chance(f["p_ltl"], 8, "ltl?"):
                setup.append(["ltl", self.ltl_formula()])
            if use_ego and not top and t.chance(3, 4, "setup.override.ego?"):
                setup.append(["override", "ego", t.choice(["foo", "foo", "foo", "bar"], "ovr.prop"), t.intrange(10, 99, "ovr.val")])
            d["setup"] = setup
            self.objs_visible = myobjs + (["ego", "ego"] if use_ego and not top else [])
            if (modular and top) or (not top and t.chance(1, 2, "sub.compose?")):
                d["compose"] = ensure_generator(self.block("compose", name, f["depth"], scn_names[i + 1 :]))
            else:
                d["compose"] = None
            scenarios.insert(0, d)
        top_setup = scenarios[0]["setup"]
        if f.get("p_recordprop"):
            ego_obj = next((st[1] for st in top_setup if st[0] == "new"), None) if use_ego else None
            for on in all_objs:
                for pr in ("foo", "bar"):
                    if t.chance(f["p_recordprop"], 8, "recordprop?") or (on == ego_obj and pr == "foo"):
                        top_setup.append(["recordprop", f"r_{on}_{pr}", on, pr])
        if f.get("p_require_setup") and t.chance(f["p_require_setup"], 8, "require.setup?"):
            top_setup.append(["require", self.table("guard")])
        if f.get("p_occlusion") and t.chance(f["p_occlusion"], 8, "occlusion?"):
            # scene generation that depends on the *other* objects of the candidate scene: a wall
            # at a random place may hide a target from the first object of the top level
            viewer = next((st[1] for st in top_setup if st[0] == "new"), None)
            if viewer:
                objpos["wall"] = ("Range(-10, 10)", 20)
                objpos["targ"] = (0, 30)
                top_setup.append(["new", "wall", None, [["width", 4], ["length", 0.5], ["height", 2]]])
                top_setup.append(["new", "targ", None, [["requireVisible", False]]])
                top_setup.append(["rawrequire", f"{viewer} can see targ"])
        ego_name = next((st[1] for st in top_setup if st[0] == "new"), None) if use_ego else None
        if ego_name and len(scenarios) >= 3 and t.chance(1, 2, "nested.override.template?"):
            # directed shape inside the random program: S1 overrides a property of the ego and
            # runs S2, which overrides it again and outlives S1; the top level cuts S1 off and
            # keeps running (the documented order of undoing: sub-scenarios first, then the
            # scenario's own overrides)
            s1, s2 = scenarios[1], scenarios[2]
            pr = t.choice(["foo", "bar"], "nested.prop")
            s1["setup"].append(["override", "ego", pr, t.intrange(10, 49, "nested.v1")])
            s2["setup"].append(["override", "ego", pr, t.intrange(50, 99, "nested.v2")])
            s2["compose"] = [["waitfor", 4, "steps"]] + (s2["compose"] or [])
            s1["compose"] = [["do", [s2["name"]], None]] + (s1["compose"] or [])
            cut = t.intrange(1, 2, "nested.cut")
            if t.chance(1, 2, "nested.by_parent"):
                scenarios[0]["compose"] = [["do", [s1["name"]], ["for", cut, "steps"]]] + scenarios[0]["compose"]
            else:
                s1["setup"].append(["termafter", cut, "steps"])
                scenarios[0]["compose"] = [["do", [s1["name"]], None]] + scenarios[0]["compose"]
            scenarios[0]["compose"] = scenarios[0]["compose"] + [["wait"]]
            if not any(st[0] == "recordprop" and st[2:] == [ego_name, pr] for st in top_setup):
                top_setup.append(["recordprop", f"r_{ego_name}_{pr}", ego_name, pr])
            max_steps = max(max_steps, cut + 3)
        prog = {
            "ego": ego_name,
            "ftab": bool(f.get("ftab")),
            "has_behavior_override": self.has_behavior_override,
            "timestep": self.timestep,
            "max_steps": max_steps,
            "behaviors": behaviors,
            "monitors": monitors,
            "scenarios": scenarios,
            "top": "Main",
            "flat": not modular,
            "objpos": objpos,
            "uses_grej": self.uses_grej,
            "ntab": self.ntab,
            "roles": {str(k): v for k, v in self.roles.items()},
        }
        return prog

    def ltl_general(self, depth, atoms):
        """Formula of bounded depth over the given atom tables (0 = an atom)."""
        t = self.t
        if depth == 0 or t.chance(1, 4, "ltl.leaf"):
            return ["atom", t.choice(atoms, "ltl.atom")]
        op = t.choice(["always", "eventually", "next", "until", "not", "and", "or", "implies"], "ltl.op")
        if op in ("always", "eventually", "next", "not"):
            return [op, self.ltl_general(depth - 1, atoms)]
        if op == "implies":
            # the grammar does not admit a parenthesised temporal formula directly before
            # `implies` (scenic_temporal_group lookahead), so the left operand is Boolean
            return [op, self.ltl_boolean(depth - 1, atoms), self.ltl_general(depth - 1, atoms)]
        return [op, self.ltl_general(depth - 1, atoms), self.ltl_general(depth - 1, atoms)]

    def ltl_boolean(self, depth, atoms):
        t = self.t
        if depth == 0 or t.chance(1, 2, "ltlb.leaf"):
            return ["atom", t.choice(atoms, "ltlb.atom")]
        op = t.choice(["not", "and", "or"], "ltlb.op")
        if op == "not":
            return [op, self.ltl_boolean(depth - 1, atoms)]
        return [op, self.ltl_boolean(depth - 1, atoms), self.ltl_boolean(depth - 1, atoms)]

    def ltl_formula(self):
        t = self.t
        if self.f.get("ltl_general"):
            if not getattr(self, "ltl_atoms", None):
                self.ltl_atoms = [self.table("free") for _ in range(t.intrange(1, 3, "ltl.natoms"))]
            while True:
                f = self.ltl_general(self.f.get("ltl_depth", 3), self.ltl_atoms)
                if f[0] != "atom":
                    return f
        kind = t.draw(3, "ltl.kind")
        if kind == 0:
            return ["always", ["atom", self.table("guard")]]
        if kind == 1:
            return ["eventually", ["atom", self.table("cond")]]
        return ["until", ["atom", self.table("guard")], ["atom", self.table("cond")]]

    # -- environment: truth tables and agent schedule -----------------------------
    def tables(self, prog, length):
        out = {}
        for k in range(prog["ntab"]):
            role = prog["roles"][str(k)]
            row = []
            for i in range(length):
                if role == "never":
                    row.append(False)
                elif role == "guard":
                    row.append(not self.t.chance(1, 8, f"tab{k}"))
                elif role == "cond":
                    row.append(self.t.chance(1, 4, f"tab{k}"))
                else:
                    row.append(self.t.chance(1, 2, f"tab{k}"))
            out[k] = row
        return out

    def schedule(self, length, nagents):
        sched = []
        for _ in range(length):
            sched.append([self.t.draw(max(1, nagents - i), "sched") for i in range(max(0, nagents - 1))])
        return sched


YIELDING = ("take", "wait", "waitfor", "waituntil", "do", "choose", "shuffle")


def has_yield(stmts):
    for s in stmts:
        if s[0] in YIELDING:
            return True
        if s[0] == "if" and (has_yield(s[2]) or has_yield(s[3])):
            return True
        if s[0] == "loop" and has_yield(s[2]):
            return True
        if s[0] == "while" and has_yield(s[1]):
            return True
        if s[0] == "try" and (has_yield(s[1]) or any(has_yield(h) for _, h in s[2])):
            return True
    return False


def ensure_generator(stmts):
    """Scenic requires behaviors/monitors/compose blocks to contain a yielding statement."""
    if not has_yield(stmts):
        stmts.insert(0, ["wait"])
    return stmts


def count_objects(prog):
    n = 0
    for sc in prog["scenarios"]:
        n += sum(1 for s in sc["setup"] if s[0] == "new")
    return n
