"""FD fragment: finite-discrete Scenic programs, their rendering, and an exact
rational-arithmetic reference for the program's conditional distribution.

A program is a DAG of nodes (JSON-able lists), each bound to the variable name that
introduced it; requirements and outputs refer to node ids, which is exactly "the value the
name had at the time of the statement".

 nodes
  ["const", c]
  ["uniform", [operand, ...]]            Uniform(a, b, ...)   operand = ["n", id] | ["c", const]
  ["options", [[operand, weight], ...]]  Options({a: 2, b: 1})
  ["range", operand, operand]            DiscreteRange(lo, hi)   (empty range => rejection)
  ["resample", id]                       resample(v)   fresh draw, same parameter values
  ["op", sym, operand, operand]          lifted + - * // %
  ["idx", kind, [operand, ...], i]       (a, b)[i]  /  [a, b][i]  /  {"k0": a, "k1": b}["ki"]
  ["lift", operand, operand]             lift2(a, b) = 10*a + b   (a distribution function)
  ["vecx", operand, operand]             (a @ b).x                (attribute of a lifted value)
  ["tuples", [[c, ...], ...]]            Uniform((1, 2), (3, 4, 5))  a random tuple
  ["starpick", id]                       Uniform(*t)   star-unpacking of a random tuple
 statements (in program order)
  ["let", name, node_id]  ["param", name, operand]  ["require", p|None, cmp, operand, operand]
  ["object", name, operand, second]       new Object on the grid cell given by the operand
"""

import itertools
from fractions import Fraction

HEADER = "from simverif.userlib import lift2\n"


# =============================================================================
# generator
# =============================================================================
class FDGen:
    def __init__(self, tape, max_vars=5, max_support=6, req_range=(0, 3), param_max=3):
        self.t = tape
        self.req_range = req_range
        self.param_max = param_max
        self.nodes = []
        self.stmts = []
        self.names = {}  # name -> node id currently bound
        self.support = {}  # node id -> sorted list of possible values (ints or tuples)
        self.max_vars = max_vars
        self.max_support = max_support
        self.nrandom = 0

    # -- helpers -----------------------------------------------------------
    def add(self, node, support):
        self.nodes.append(node)
        nid = len(self.nodes) - 1
        self.support[nid] = sorted(set(support))
        return nid

    def int_vars(self):
        return [nid for name, nid in sorted(self.names.items()) if all(isinstance(v, int) for v in self.support[nid])]

    def operand(self, allow_const=True):
        vs = self.int_vars()
        if vs and (not allow_const or not self.t.chance(1, 4, "operand.const")):
            return ["n", self.t.choice(vs, "operand.var")]
        return ["c", self.t.intrange(0, 4, "operand.c")]

    def sup(self, o):
        return self.support[o[1]] if o[0] == "n" else [o[1]]

    def new_name(self):
        return f"v{len([s for s in self.stmts if s[0] == 'let'])}"

    # -- random variable definitions ---------------------------------------------
    def definition(self):
        t = self.t
        kinds = ["uniform", "options", "range"]
        if self.int_vars():
            kinds += ["op", "idx", "lift", "vecx", "uniform_nested", "range_random"]
        prim = [nid for nid in self.int_vars() if self.nodes[nid][0] in ("uniform", "options", "range")]
        if prim:
            kinds.append("resample")
        kinds.append("starpick")
        kind = t.choice(kinds, "def.kind")
        if kind == "uniform":
            k = t.intrange(2, 3, "uniform.k")
            vals = [t.intrange(0, 4, "uniform.v") for _ in range(k)]
            return ["uniform", [["c", v] for v in vals]], vals
        if kind == "options":
            k = t.intrange(2, 3, "options.k")
            vals = []
            for _ in range(k):
                v = t.intrange(0, 4, "options.v")
                if v not in vals:
                    vals.append(v)
            if len(vals) < 2:
                vals.append(vals[0] + 1)
            ws = [t.intrange(1, 3, "options.w") for _ in vals]
            return ["options", [[["c", v], w] for v, w in zip(vals, ws)]], vals
        if kind == "range":
            lo = t.intrange(0, 3, "range.lo")
            hi = lo + t.intrange(0, 2, "range.len")
            node = ["range", ["c", lo], ["c", hi]]
            if t.chance(1, 3, "range.c.halves"):
                node.append([t.choice([0, -1], "range.c.dlo"), t.choice([0, 1], "range.c.dhi")])
            return node, list(range(lo, hi + 1))
        if kind == "range_random":
            a = self.operand(allow_const=False)
            # sometimes empty for some values of the bound: rejection inside sampling
            hi = max(self.sup(a)) + t.intrange(0, 2, "range.slack") - (1 if t.chance(1, 3, "range.maybe_empty") else 0)
            if t.chance(1, 2, "range.lo_random"):
                lo, hi_o = a, ["c", hi]
                sup = range(min(self.sup(a)), hi + 1)
            else:
                lo_c = min(self.sup(a)) - t.intrange(0, 1, "range.lo_slack")
                lo, hi_o = ["c", lo_c], a
                sup = range(lo_c, max(self.sup(a)) + 1)
            node = ["range", lo, hi_o]
            if t.chance(1, 2, "range.halves"):
                # non-integer bounds: DiscreteRange(l, h) is uniform on ceil(l)..floor(h)
                node.append([t.choice([0, -1, 1], "range.dlo"), t.choice([0, 1, -1], "range.dhi")])
            return node, list(sup) or [0]
        if kind == "uniform_nested":
            a, b = self.operand(allow_const=False), self.operand()
            return ["uniform", [a, b]], self.sup(a) + self.sup(b)
        if kind == "resample":
            j = t.choice(prim, "resample.which")
            return ["resample", j], self.support[j]
        if kind == "op":
            sym = t.choice(["-", "+", "*", "//", "%", "-"], "op.sym")
            a = self.operand(allow_const=False)
            b = self.operand() if sym in ("+", "-", "*") else ["c", t.intrange(2, 3, "op.div")]
            if sym in ("+", "-", "*") and t.chance(1, 2, "op.const_left"):
                # constant on the left (reflected operators; the identities 0 and 1 are the
                # interesting ones: `0 - x`, `0 + x`, `1 * x`, `0 * x`)
                a, b = ["c", t.choice([0, 0, 1, 2], "op.lc")], a
            f = {"+": lambda x, y: x + y, "-": lambda x, y: x - y, "*": lambda x, y: x * y,
                 "//": lambda x, y: x // y, "%": lambda x, y: x % y}[sym]
            return ["op", sym, a, b], [f(x, y) for x in self.sup(a) for y in self.sup(b)]
        if kind == "idx":
            ck = t.choice(["tuple", "list", "dict"], "idx.kind")
            a, b = self.operand(allow_const=False), self.operand()
            i = t.draw(2, "idx.i")
            return ["idx", ck, [a, b], i], self.sup([a, b][i])
        if kind == "lift":
            a, b = self.operand(allow_const=False), self.operand()
            return ["lift", a, b], [10 * x + y for x in self.sup(a) for y in self.sup(b)]
        if kind == "vecx":
            a, b = self.operand(allow_const=False), self.operand()
            return ["vecx", a, b], self.sup(a)
        if kind == "starpick":
            k = t.intrange(2, 3, "tuples.k")
            tups = [[t.intrange(0, 4, "tuples.v") for _ in range(t.intrange(1, 3, "tuples.len"))] for _ in range(k)]
            tid = self.add(["tuples", tups], [tuple(x) for x in tups])
            self.nrandom += 1
            return ["starpick", tid], [v for tup in tups for v in tup]
        raise AssertionError(kind)

    def let(self):
        node, sup = self.definition()
        if len(set(sup)) > 3 * self.max_support:
            node, sup = ["uniform", [["c", 0], ["c", 1]]], [0, 1]
        nid = self.add(node, sup)
        if node[0] in ("uniform", "options", "range", "resample", "starpick"):
            self.nrandom += 1
        # bind to a fresh name, or re-bind an existing one (names rebound after a require)
        names = sorted(self.names)
        if names and any(s[0] == "require" for s in self.stmts) and self.t.chance(1, 3, "let.rebind"):
            name = self.t.choice(names, "let.rebind.which")
        else:
            name = f"v{len(self.names)}"
        self.names[name] = nid
        self.stmts.append(["let", name, nid])

    def requirement(self):
        t = self.t
        a = self.operand(allow_const=False)
        b = self.operand()
        cmp = t.choice(["<", "<=", "==", "!=", ">"], "req.cmp")
        p = None
        if t.chance(2, 5, "req.soft"):
            p = t.choice(self.soft_probs, "req.p")
        self.stmts.append(["require", p, cmp, a, b])

    def program(self):
        t = self.t
        self.mode2D = bool(t.chance(1, 4, "mode2D"))
        self.soft_probs = ["0.5"] if t.chance(2, 3, "soft.half_only") else ["0.25", "0.5", "0.75"]
        nvars = t.intrange(1, self.max_vars, "nvars")
        nreq = t.intrange(self.req_range[0], self.req_range[1], "nreq")
        nobj = t.intrange(0, 2, "nobj")
        # interleave definitions and requirements
        slots = ["let"] * nvars
        for _ in range(nreq):
            slots.insert(t.intrange(1, len(slots), "req.pos"), "require")
        for s in slots:
            if s == "let" and self.nrandom < self.max_vars:
                self.let()
            elif s == "let":
                pass
            elif self.int_vars():
                self.requirement()
        nparam = t.intrange(0 if nobj else 1, self.param_max, "nparam")
        for i in range(nparam):
            self.stmts.append(["param", f"p{i}", self.operand(allow_const=False)])
        for i in range(nobj):
            self.stmts.append(["object", "ego" if i == 0 else f"obj{i}", self.operand(allow_const=False), i > 0])
        if nobj == 2 and t.chance(1, 3, "ego.rebind?"):
            # a requirement that mentions `ego`, stated while `ego` is the first object, followed by
            # rebinding `ego` to the second one: it keeps constraining the first object
            first = next(st for st in self.stmts if st[0] == "object")
            self.stmts.append(["require", None, t.choice([">", "<=", "!="], "ego.cmp"), first[2],
                               ["c", t.intrange(0, 3, "ego.c")], "via-ego"])
        strata = 4 if any(s[0] == "require" and s[1] in ("0.25", "0.75") for s in self.stmts) else 2
        return {"nodes": self.nodes, "stmts": self.stmts, "mode2D": self.mode2D, "strata": strata}


# =============================================================================
# rendering
# =============================================================================
def render(prog):
    nodes = prog["nodes"]
    name_of = {}  # node id -> expression text usable where the node is referenced

    def opnd(o):
        return name_of[o[1]] if o[0] == "n" else repr(o[1])

    def expr(nid):
        n = nodes[nid]
        k = n[0]
        if k == "const":
            return repr(n[1])
        if k == "uniform":
            return "Uniform(" + ", ".join(opnd(o) for o in n[1]) + ")"
        if k == "options":
            return "Options({" + ", ".join(f"{opnd(o)}: {w}" for o, w in n[1]) + "})"
        if k == "range":
            lo, hi = opnd(n[1]), opnd(n[2])
            if len(n) > 3:
                sh = {0: "", 1: " + 0.5", -1: " - 0.5"}
                lo = f"({lo}{sh[n[3][0]]})" if n[3][0] else lo
                hi = f"({hi}{sh[n[3][1]]})" if n[3][1] else hi
            return f"DiscreteRange({lo}, {hi})"
        if k == "resample":
            return f"resample({name_of[n[1]]})"
        if k == "op":
            return f"({opnd(n[2])} {n[1]} {opnd(n[3])})"
        if k == "idx":
            a, b = (opnd(o) for o in n[2])
            if n[1] == "tuple":
                return f"({a}, {b})[{n[3]}]"
            if n[1] == "list":
                return f"[{a}, {b}][{n[3]}]"
            return "{" + f"'k0': {a}, 'k1': {b}" + "}" + f"['k{n[3]}']"
        if k == "lift":
            return f"lift2({opnd(n[1])}, {opnd(n[2])})"
        if k == "vecx":
            return f"({opnd(n[1])} @ {opnd(n[2])}).x"
        if k == "tuples":
            return "Uniform(" + ", ".join(repr(tuple(x)) for x in n[1]) + ")"
        if k == "starpick":
            return f"Uniform(*{name_of[n[1]]})"
        raise ValueError(k)

    out = [HEADER.rstrip()]
    hidden = 0
    for s in prog["stmts"]:
        if s[0] == "let":
            nid = s[2]
            n = nodes[nid]
            if n[0] == "starpick" and n[1] not in name_of:
                hidden += 1
                tn = f"t{hidden}"
                out.append(f"{tn} = {expr(n[1])}")
                name_of[n[1]] = tn
            out.append(f"{s[1]} = {expr(nid)}")
            name_of[nid] = s[1]
            # NB: an older node bound to the same name keeps its *old* text only in
            # statements already emitted, which is what rebinding means
        elif s[0] == "param":
            out.append(f"param {s[1]} = {opnd(s[2])}")
        elif s[0] == "require" and len(s) > 5:
            # (stated after both objects exist; the first object sits at x = 3 * its cell)
            out.append(f"require (ego.position.x / 3) {s[2]} {opnd(s[4])}")
            out.append("ego = obj1")
        elif s[0] == "require":
            pr = f"[{s[1]}]" if s[1] else ""
            out.append(f"require{pr} {opnd(s[3])} {s[2]} {opnd(s[4])}")
        elif s[0] == "object":
            x = f"3 * {opnd(s[2])}" + (" + 0.3" if s[3] else "")
            y = "0.3" if s[3] else "0"
            pos = f"({x}, {y})" if prog["mode2D"] else f"({x}, {y}, 0)"
            # (2D compatibility mode requires objects to be visible from the ego by default)
            out.append(f"{s[1]} = new Object at {pos}, with requireVisible False")
    return "\n".join(out) + "\n"


def validate_names(prog):
    """A node may only be referenced while some name denotes it: rendering uses names."""
    return True


# =============================================================================
# exact reference
# =============================================================================
def reachable(prog):
    nodes = prog["nodes"]
    seen = set()

    def visit_o(o):
        if o[0] == "n":
            visit(o[1])

    def visit(nid):
        if nid in seen:
            return
        seen.add(nid)
        n = nodes[nid]
        k = n[0]
        if k == "uniform":
            for o in n[1]:
                visit_o(o)
        elif k == "options":
            for o, _ in n[1]:
                visit_o(o)
        elif k == "range":
            visit_o(n[1]), visit_o(n[2])
        elif k in ("resample", "starpick"):
            visit(n[1])
        elif k == "op":
            visit_o(n[2]), visit_o(n[3])
        elif k == "idx":
            # the index is a constant, so Python evaluates the subscript at once: only the
            # selected element is part of the expression (the other one is never sampled,
            # which matters when it is a range that can be empty)
            visit_o(n[2][n[3]])
        elif k in ("lift", "vecx"):
            visit_o(n[1]), visit_o(n[2])

    for s in prog["stmts"]:
        if s[0] == "param":
            visit_o(s[2])
        elif s[0] == "require":
            visit_o(s[3]), visit_o(s[4])
        elif s[0] == "object":
            visit_o(s[2])
    return seen


def worlds(prog):
    """All joint assignments of the reachable nodes with exact probabilities.
    Yields (values dict | None for 'rejected while sampling', probability)."""
    nodes = prog["nodes"]
    reach = sorted(reachable(prog))

    def val(o, w):
        return w[o[1]] if o[0] == "n" else o[1]

    def draw_of(nid, w):
        """List of (value, prob) for a draw node given the world, or None if deterministic;
        an empty list means the draw is impossible (rejection)."""
        n = nodes[nid]
        k = n[0]
        if k == "resample":
            return draw_of_kind(nodes[n[1]], w)
        return draw_of_kind(n, w)

    def draw_of_kind(n, w):
        k = n[0]
        if k == "uniform":
            m = len(n[1])
            return [(val(o, w), Fraction(1, m)) for o in n[1]]
        if k == "options":
            tot = sum(wt for _, wt in n[1])
            return [(val(o, w), Fraction(wt, tot)) for o, wt in n[1]]
        if k == "range":
            lo, hi = val(n[1], w), val(n[2], w)
            if len(n) > 3:
                import math

                lo = math.ceil(lo + 0.5 * n[3][0])
                hi = math.floor(hi + 0.5 * n[3][1])
            if hi < lo:
                return []
            m = hi - lo + 1
            return [(v, Fraction(1, m)) for v in range(lo, hi + 1)]
        if k == "tuples":
            m = len(n[1])
            return [(tuple(x), Fraction(1, m)) for x in n[1]]
        if k == "starpick":
            tup = w[n[1]]
            return [(v, Fraction(1, len(tup))) for v in tup]
        return None

    def det(nid, w):
        n = nodes[nid]
        k = n[0]
        if k == "const":
            return n[1]
        if k == "op":
            a, b = val(n[2], w), val(n[3], w)
            return {"+": a + b, "-": a - b, "*": a * b, "//": a // b if b else 0, "%": a % b if b else 0}[n[1]]
        if k == "idx":
            return val(n[2][n[3]], w)
        if k == "lift":
            return 10 * val(n[1], w) + val(n[2], w)
        if k == "vecx":
            return val(n[1], w)
        raise ValueError(k)

    def rec(i, w, p):
        if i == len(reach):
            yield dict(w), p
            return
        nid = reach[i]
        d = draw_of(nid, w)
        if d is None:
            w[nid] = det(nid, w)
            yield from rec(i + 1, w, p)
            del w[nid]
            return
        if not d:
            # this draw is impossible: the whole sample is rejected, whatever the other
            # (independent) draws would have been
            yield None, p
            return
        for v, q in d:
            w[nid] = v
            yield from rec(i + 1, w, p * q)
        del w[nid]

    yield from rec(0, {}, Fraction(1))


def _cmp(sym, a, b):
    return {"<": a < b, "<=": a <= b, "==": a == b, "!=": a != b, ">": a > b}[sym]


def reference_law(prog, m):
    """Exact law of _generateInner(maxIterations=m): dict outcome -> Fraction, where an
    outcome is ("scene", iterations, params tuple, object cells tuple) or ("reject",)."""
    stmts = prog["stmts"]
    reqs = [s for s in stmts if s[0] == "require"]
    params = [s for s in stmts if s[0] == "param"]
    objs = [s for s in stmts if s[0] == "object"]
    soft = [i for i, r in enumerate(reqs) if r[1]]

    def val(o, w):
        return w[o[1]] if o[0] == "n" else o[1]

    # per-world: which requirements hold, outcome description
    table = []
    for w, p in worlds(prog):
        if w is None:
            table.append((None, None, p))
            continue
        holds = tuple(_cmp(r[2], val(r[3], w), val(r[4], w)) for r in reqs)
        cells = tuple(val(o[2], w) for o in objs)
        collide = len(cells) == 2 and cells[0] == cells[1]
        out = (tuple((s[1], val(s[2], w)) for s in params), cells)
        table.append((holds, None if collide else out, p))
    law = {}
    for active in itertools.product((False, True), repeat=len(soft)):
        wA = Fraction(1)
        for on, i in zip(active, soft):
            pr = Fraction(reqs[i][1])
            wA *= pr if on else 1 - pr
        enforced = [i for i, r in enumerate(reqs) if not r[1]] + [i for on, i in zip(active, soft) if on]
        acc = {}
        rej = Fraction(0)
        for holds, out, p in table:
            if holds is None or out is None or not all(holds[i] for i in enforced):
                rej += p
            else:
                acc[out] = acc.get(out, Fraction(0)) + p
        for k in range(1, m + 1):
            f = wA * rej ** (k - 1)
            for out, p in acc.items():
                key = ("scene", k) + out
                law[key] = law.get(key, Fraction(0)) + f * p
        law[("reject",)] = law.get(("reject",), Fraction(0)) + wA * rej**m
    return {k: v for k, v in law.items() if v != 0}
