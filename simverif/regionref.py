"""Independent reference model of Scenic regions (used by C03); own arithmetic only, no call into scenic.

  sd(P)      signed distance bound of points P (n,3): > 0 = outside by at least that much, <= 0 = inside
             (planar sets: the in-plane signed distance when z is exactly the carrier height; curves and
             point sets have no interior)
  points(M)  about M quasi-uniform (Halton) points on the set, density M / measure
  measure, dim (0 points, 1 length, 2 area, 3 volume), tol (membership margin), slack (how far inside the
  ideal set the library's polygon / mesh approximation may end), zs (candidate heights), desc (json-able)
Compositions are Boolean combinations of operand sd's; their measure is that of the composed set.
"""

import math

import numpy as np

PRIMES = (2, 3, 5, 7, 11)
CH = 40000


def vdc(idx, base):
    idx = np.array(idx, dtype=np.int64)
    r = np.zeros(len(idx))
    f = 1.0
    while idx.any():
        f /= base
        r += f * (idx % base)
        idx //= base
    return r


def hal(n, dims, salt=0):
    idx = np.arange(1, n + 1, dtype=np.int64) + 20 + salt * 100003
    return np.stack([vdc(idx, PRIMES[d]) for d in range(dims)], axis=1)


def rot3(yaw, pitch, roll):
    """Scenic's intrinsic Z-X-Y Euler convention: R = Rz(yaw) Rx(pitch) Ry(roll)."""
    (cz, sz), (cx, sx), (cy, sy) = [(math.cos(a), math.sin(a)) for a in (yaw, pitch, roll)]
    return (np.array([[cz, -sz, 0], [sz, cz, 0], [0, 0, 1.0]]) @ np.array([[1.0, 0, 0], [0, cx, -sx], [0, sx, cx]])
            @ np.array([[cy, 0, sy], [0, 1.0, 0], [-sy, 0, cy]]))


def box_sd(q, half):
    d = np.abs(q) - half
    return np.linalg.norm(np.maximum(d, 0), axis=1) + np.minimum(d.max(axis=1), 0)


def ring_edges(rings):
    a = np.concatenate([np.asarray(r, float) for r in rings])
    b = np.concatenate([np.roll(np.asarray(r, float), -1, axis=0) for r in rings])
    return a, b


def poly_sd(rings, X, Y, dist=True):
    """Even-odd ray test over all rings (holes, several parts) + distance to the nearest edge."""
    a, b = ring_edges(rings)
    ax, ay, bx, by = a[:, 0], a[:, 1], b[:, 0], b[:, 1]
    ex, ey = bx - ax, by - ay
    out = np.empty(len(X))
    for s in range(0, len(X), CH):
        x, y = X[s:s + CH, None], Y[s:s + CH, None]
        cross = (ay > y) != (by > y)
        with np.errstate(divide="ignore", invalid="ignore"):
            xi = ax + (y - ay) * ex / (by - ay)
        inside = ((cross & (x < xi)).sum(axis=1) & 1) == 1
        if dist:
            t = np.clip(((x - ax) * ex + (y - ay) * ey) / (ex * ex + ey * ey), 0, 1)
            d = np.hypot(x - (ax + t * ex), y - (ay + t * ey)).min(axis=1)
        else:
            d = 1.0
        out[s:s + CH] = np.where(inside, -d, d)
    return out


def shoelace(rings):
    """Area enclosed under the even-odd rule for non-crossing rings (a ring nested in an odd
    number of other rings is a hole)."""
    tot = 0.0
    for i, r in enumerate(rings):
        r = np.asarray(r, float)
        a = abs(0.5 * np.sum(r[:, 0] * np.roll(r[:, 1], -1) - np.roll(r[:, 0], -1) * r[:, 1]))
        c = r[0]
        others = [q for j, q in enumerate(rings) if j != i]
        depth = sum(poly_sd([q], c[:1], c[1:2], dist=False)[0] < 0 for q in others) if others else 0
        tot += -a if depth % 2 else a
    return tot


def flat_sd(sd2, dz):  # planar carrier: in-plane signed distance on the plane, positive distance off it
    return np.where(dz == 0, sd2, np.hypot(np.maximum(sd2, 0), dz))


class Ref:
    dim, slack, kind, zfree = 3, 0.0, "?", False  # zfree: ignore the height of a planar set (defect models only)


class BoxRef(Ref):
    kind = "box"
    def __init__(self, dims, pos, ypr):
        self.h, self.pos, self.R = np.array(dims, float) / 2, np.array(pos, float), rot3(*ypr)
        self.measure = float(np.prod(dims))
        self.tol = 1e-6 * max(1.0, max(dims))
        self.zs = [float(pos[2])]
        self.desc = {"kind": "BoxRegion", "dimensions": list(dims), "position": list(pos), "yaw_pitch_roll": list(ypr)}

    def sd(self, P):
        return box_sd((P - self.pos) @ self.R, self.h)

    def points(self, M, salt=0):
        return self.pos + ((hal(M, 3, salt) - 0.5) * 2 * self.h) @ self.R.T


_ICO = {}


def ico():
    """Unit icosphere (what SpheroidRegion really is): largest gap to the sphere, volume ratio."""
    if not _ICO:
        import trimesh
        m = trimesh.creation.icosphere(radius=1)
        _ICO["gap"] = 1 - float(np.linalg.norm(m.triangles_center, axis=1).min())
        _ICO["vol"] = float(m.volume) / (4 / 3 * math.pi)
    return _ICO


class EllRef(BoxRef):
    kind = "spheroid"
    def __init__(self, dims, pos, ypr):
        super().__init__(dims, pos, ypr)
        self.desc["kind"] = "SpheroidRegion"
        self.measure = 4 / 3 * math.pi * float(np.prod(self.h)) * ico()["vol"]
        self.slack = 1.5 * ico()["gap"] * float(self.h.max())

    def sd(self, P):
        q = (P - self.pos) @ self.R
        return (np.linalg.norm(q / self.h, axis=1) - 1) * self.h.min()

    def points(self, M, salt=0):
        q = 2 * hal(int(M / (math.pi / 6)), 3, salt) - 1
        q = q[np.linalg.norm(q, axis=1) <= 1]
        return self.pos + (q * self.h) @ self.R.T


class PolyRef(Ref):
    """rings in the local xy frame; height 0 = planar polygon at z = pos.z; height > 0 = prism
    (solid, or its surface) centred at pos and rotated by R."""

    def __init__(self, rings, pos, height=0.0, ypr=(0, 0, 0), surface=False, kind="polygon", desc=None):
        self.rings = [np.asarray(r, float) for r in rings]
        self.pos, self.R, self.hz, self.surface = np.array(pos, float), rot3(*ypr), height / 2, surface
        self.area = shoelace(self.rings)
        a, b = ring_edges(self.rings)
        self.elen = np.linalg.norm(b - a, axis=1)
        self.lo, self.hi = a.min(axis=0), a.max(axis=0)
        self.kind, self.dim = kind, (3 if height and not surface else 2)
        self.measure = (self.area if not height else self.area * height if not surface
                        else 2 * self.area + float(self.elen.sum()) * height)
        self.tol = 1e-6 * max(1.0, float((self.hi - self.lo).max()), height)
        self.zs = [float(pos[2])]
        self.desc = desc

    def sd(self, P):
        q = (P - self.pos) @ self.R
        s2 = poly_sd(self.rings, q[:, 0], q[:, 1])
        if not self.hz:
            return flat_sd(s2, np.abs(q[:, 2]) * (not self.zfree))
        dz = np.abs(q[:, 2]) - self.hz
        s = np.where((s2 <= 0) & (dz <= 0), np.maximum(s2, dz), np.hypot(np.maximum(s2, 0), np.maximum(dz, 0)))
        return np.abs(s) if self.surface else s

    def _fill(self, M, salt, dims):
        """About M Halton points in the polygon (columns 0,1), further columns uniform in [0,1)."""
        bb = float(np.prod(self.hi - self.lo))
        u = hal(max(1, int(M * bb / self.area)), dims, salt)
        xy = self.lo + u[:, :2] * (self.hi - self.lo)
        keep = poly_sd(self.rings, xy[:, 0], xy[:, 1], dist=False) < 0
        return xy[keep], u[keep, 2:]

    def points(self, M, salt=0):
        if not self.hz:
            xy, _ = self._fill(M, salt, 2)
            q = np.column_stack([xy, np.zeros(len(xy))])
        elif not self.surface:
            xy, w = self._fill(M, salt, 3)
            q = np.column_stack([xy, (w[:, 0] - 0.5) * 2 * self.hz])
        else:
            mc = int(M * self.area / self.measure)
            parts = []
            for k, z in enumerate((-self.hz, self.hz)):
                xy, _ = self._fill(mc, salt + 7 + k, 2)
                parts.append(np.column_stack([xy, np.full(len(xy), z)]))
            u = hal(max(1, M - 2 * mc), 2, salt + 3)
            a, b = ring_edges(self.rings)
            cum = np.cumsum(self.elen)
            s = u[:, 0] * cum[-1]
            e = np.minimum(np.searchsorted(cum, s, side="right"), len(cum) - 1)
            t = (s - (cum[e] - self.elen[e])) / self.elen[e]
            xy = a[e] + t[:, None] * (b[e] - a[e])
            parts.append(np.column_stack([xy, (u[:, 1] - 0.5) * 2 * self.hz]))
            q = np.concatenate(parts)
        return self.pos + q @ self.R.T


class DiscRef(Ref):
    """Circle (angle None) or sector: centre, radius, heading of the centre line, opening angle."""
    dim = 2
    def __init__(self, center, radius, heading=0.0, angle=None, resolution=32):
        self.c, self.r, self.hd = np.array(center, float), float(radius), float(heading)
        self.ang = None if angle is None or angle >= math.tau - 0.001 else float(angle)
        self.kind = "circle" if angle is None else "sector"
        self.measure = self.r ** 2 * (math.pi if self.ang is None else self.ang / 2)
        self.tol = 1e-6 * max(1.0, self.r)
        self.slack = 1.5 * self.r * (1 - math.cos(math.pi / (4 * resolution)))
        self.zs = [float(center[2])]
        self.desc = {"kind": "CircularRegion" if angle is None else "SectorRegion", "center": list(center),
                     "radius": radius, "heading": heading, "angle": angle, "resolution": resolution}

    def sd(self, P):
        dx, dy = P[:, 0] - self.c[0], P[:, 1] - self.c[1]
        rho = np.hypot(dx, dy)
        s2 = rho - self.r
        if self.ang is not None:
            phi = np.arctan2(dy, dx) - (self.hd + math.pi / 2)
            phi = np.abs((phi + math.pi) % math.tau - math.pi)
            ha = self.ang / 2
            inner = -rho * np.sin(np.minimum(ha - phi, math.pi / 2))
            outer = rho * np.sin(np.minimum(phi - ha, math.pi / 2))
            s2 = np.maximum(s2, np.where(phi <= ha, inner, outer))
        return flat_sd(s2, np.abs(P[:, 2] - self.c[2]) * (not self.zfree))

    def points(self, M, salt=0):
        u = hal(M, 2, salt)
        rho = self.r * np.sqrt(u[:, 0])
        t = (u[:, 1] - 0.5) * (math.tau if self.ang is None else self.ang) + self.hd + math.pi / 2
        return np.column_stack([self.c[0] + rho * np.cos(t), self.c[1] + rho * np.sin(t), np.full(M, self.c[2])])


class RectRef(Ref):
    dim, kind = 2, "rect"
    def __init__(self, pos, heading, width, length):
        self.c, self.hd, self.h = np.array(pos, float), float(heading), np.array([width / 2, length / 2])
        self.measure, self.tol, self.zs = width * length, 1e-6 * max(1.0, width, length), [float(pos[2])]
        self.desc = {"kind": "RectangularRegion", "position": list(pos), "heading": heading, "width": width, "length": length}

    def _rot(self):
        c, s = math.cos(self.hd), math.sin(self.hd)
        return np.array([[c, -s], [s, c]])

    def sd(self, P):
        q = (P[:, :2] - self.c[:2]) @ self._rot()  # = Rot(-heading) (p - c)
        return flat_sd(box_sd(q, self.h), np.abs(P[:, 2] - self.c[2]) * (not self.zfree))

    def points(self, M, salt=0):
        q = ((hal(M, 2, salt) - 0.5) * 2 * self.h) @ self._rot().T
        return np.column_stack([self.c[:2] + q, np.full(M, self.c[2])])


class LineRef(Ref):
    dim, accept = 1, None  # accept: extra point filter (defect models only)
    def __init__(self, chains, kind):
        self.a = np.array([p for ch in chains for p in ch[:-1]], float)
        self.b = np.array([p for ch in chains for p in ch[1:]], float)
        self.len = np.linalg.norm(self.b - self.a, axis=1)
        self.measure, self.kind = float(self.len.sum()), kind
        self.tol = 1e-6 * max(1.0, float(np.abs(np.concatenate([self.a, self.b])).max()))
        self.zs = sorted({float(z) for z in np.concatenate([self.a[:, 2], self.b[:, 2]])})[:4]
        self.desc = {"kind": "PolylineRegion" if kind == "polyline" else "PathRegion",
                     "polylines": [[list(map(float, p)) for p in ch] for ch in chains]}

    def sd(self, P):
        out = np.empty(len(P))
        e = self.b - self.a
        for s in range(0, len(P), CH):
            d = P[s:s + CH, None, :] - self.a[None]
            t = np.clip((d * e).sum(axis=2) / (self.len ** 2), 0, 1)
            out[s:s + CH] = np.linalg.norm(d - t[..., None] * e, axis=2).min(axis=1)
        return out

    def points(self, M, salt=0):
        cum = np.cumsum(self.len)
        s = (np.arange(M) + 0.5) / M * cum[-1]
        k = np.minimum(np.searchsorted(cum, s, side="right"), len(cum) - 1)
        t = ((s - (cum[k] - self.len[k])) / self.len[k])[:, None]
        if self.accept is None:
            return self.a[k] + t * (self.b[k] - self.a[k])  # exact in a coordinate both ends share
        p = self.a[k] * (1.0 - t) + self.b[k] * t  # PolylineRegion's interpolation formula, bit for bit
        return p[self.accept(p)]


class BallRef(Ref):
    kind, zs, tol = "ball", [], 1e-6

    def __init__(self, center, radius):
        self.c, self.r = np.array(center, float), float(radius)
        self.desc = {"kind": "ball", "center": list(center), "radius": radius}

    def sd(self, P):
        return np.linalg.norm(P - self.c, axis=1) - self.r


class PtsRef(Ref):
    dim = 0
    def __init__(self, pts, kind="pointset", desc=None):
        self.p = np.array(pts, float).reshape(-1, 3)
        self.kind, self.measure, self.tol = kind, len(self.p), 1e-6
        self.zs = sorted({float(z) for z in self.p[:, 2]})[:4]
        self.desc = desc or {"kind": "PointSetRegion", "points": self.p.tolist()}

    def sd(self, P):
        return np.linalg.norm(P[:, None, :] - self.p[None], axis=2).min(axis=1)

    def points(self, M, salt=0):
        return self.p.copy()


class VoxRef(Ref):
    """Union of axis-aligned cubes (centres, pitch): Chebyshev distance to the nearest centre."""
    kind = "voxel"
    def __init__(self, centers, pitch, desc):
        from scipy.spatial import cKDTree
        self.c, self.pitch = np.array(centers, float), float(pitch)
        self.tree = cKDTree(self.c)
        self.measure, self.tol = len(self.c) * self.pitch ** 3, 1e-6 * max(1.0, float(np.abs(self.c).max()))
        self.zs, self.desc = [float(self.c[:, 2].mean())], desc

    def sd(self, P):
        return self.tree.query(P, p=np.inf)[0] - self.pitch / 2

    def points(self, M, salt=0):
        u = hal(M, 4, salt)
        k = np.minimum((u[:, 0] * len(self.c)).astype(int), len(self.c) - 1)
        return self.c[k] + (u[:, 1:] - 0.5) * self.pitch


class Comp(Ref):
    def __init__(self, op, A, B):
        self.op, self.A, self.B = op, A, B
        self.dim = {"intersect": min(A.dim, B.dim), "union": max(A.dim, B.dim), "difference": A.dim}[op]
        self.tol, self.zs, self.slack = max(A.tol, B.tol), sorted(set(A.zs + B.zs)), max(A.slack, B.slack)
        self.kind = f"{op}({A.kind},{B.kind})"
        self.desc, self._measure, self.weights = {"op": op, "A": A.desc, "B": B.desc}, None, None

    def sd(self, P):
        a, b = self.A.sd(P), self.B.sd(P)
        if self.op == "intersect":
            return np.maximum(a, b)
        if self.op == "union":
            return np.minimum(a, b)
        if self.B.dim == 0:  # points have no interior: a point of A coinciding with one of B is removed
            return np.where(b <= self.B.tol, np.maximum(a, 1.0), a)
        return np.maximum(a, -b - self.B.slack)

    def points(self, M, salt=0, dense=False):
        """Quasi-uniform points on the composed set, generated from M points of the sampled operand(s);
        dense=True scales M up so that about M points remain (needed when nested in a union)."""
        A, B, pts = self.A, self.B, lambda r, m, s: r.points(max(1, int(m)), s, True) if isinstance(r, Comp) else r.points(max(1, int(m)), s)
        if dense:
            M = min(M * self._src_measure() / max(self.measure, 1e-300), 40 * M)
        if self.op == "intersect":
            src, oth = (A, B) if (A.dim, A.measure) <= (B.dim, B.measure) else (B, A)
            p = pts(src, M, salt)
            return p[oth.sd(p) <= 0]
        if self.op == "difference":
            p = pts(A, M, salt)
            return p[B.sd(p) > (B.tol if B.dim == 0 else 0)]
        if A.dim != B.dim:
            return pts(A if A.dim > B.dim else B, M, salt)
        wa, wb = self.weights or (A.measure, B.measure)
        pa, pb = pts(A, M * wa / (wa + wb), salt), pts(B, M * wb / (wa + wb), salt + 1)
        if self.weights is None:
            return np.concatenate([pa, pb[A.sd(pb) > 0]])
        # operands chosen with other weights than their measures (defect models): in the overlap the sampler
        # keeps a point of either operand with probability 1/2 -- thinned here by an independent base-13 digit
        ka, kb = (B.sd(pa) > 0) | (vdc(np.arange(len(pa)), 13) < 0.5), (A.sd(pb) > 0) | (vdc(np.arange(len(pb)), 13) < 0.5)
        return np.concatenate([pa[ka], pb[kb]])

    def _src_measure(self):
        A, B = self.A, self.B
        if self.op == "intersect":
            return A.measure if (A.dim, A.measure) <= (B.dim, B.measure) else B.measure
        return A.measure if self.op == "difference" or A.dim > B.dim else B.measure if B.dim > A.dim else A.measure + B.measure

    @property
    def measure(self):
        if self._measure is None:
            self._measure = len(self.points(30000, 3)) / 30000 * self._src_measure()
        return self._measure


def coplanar_contact(A, B, eps=1e-9):
    """Does a horizontal planar region (rectangle, circle, sector, polygon) lie exactly in the plane of a flat face
    of a box / prism mesh (volume or surface)?  Then the operands merely touch within numerical tolerance: which
    samples pass the library's exact `z ==` tests is decided by rounding noise, and no law is defined."""
    for flat, mesh in ((A, B), (B, A)):
        if not (isinstance(flat, (DiscRef, RectRef)) or isinstance(flat, PolyRef) and not flat.hz):
            continue
        if isinstance(mesh, EllRef) or not (isinstance(mesh, BoxRef) or isinstance(mesh, PolyRef) and mesh.hz):
            continue
        if isinstance(mesh, BoxRef):
            faces = [(np.eye(3)[i], s * mesh.h[i] * np.eye(3)[i]) for i in range(3) for s in (-1, 1)]
        else:
            a, b = ring_edges(mesh.rings)
            faces = [(np.array([0, 0, 1.0]), np.array([0, 0, s * mesh.hz])) for s in (-1, 1)]
            faces += [(np.array([e[1], -e[0], 0.0]) / np.hypot(*e), np.array([p[0], p[1], 0.0])) for p, e in zip(a, b - a)]
        for nrm, c in faces:
            if abs((mesh.R @ nrm)[2]) > 1 - 1e-9 and abs((mesh.pos + mesh.R @ c)[2] - flat.zs[0]) <= eps:
                return True
    return False


class KDCells:
    """Partition of space into <= 2**depth boxes by recursive near-median splits of a point sample along its
    widest axis; adapts to sets of any intrinsic dimension.  A cut is always placed in the middle of a gap
    > 1e-7 between sample coordinates, so points on an axis-aligned face (coordinates equal up to rounding
    noise) are never separated by it."""

    def __init__(self, pts, depth=5):
        self.ncell = 0
        self.tree = self._build(pts, depth)

    def _build(self, pts, depth):
        for ax in (np.argsort(-np.ptp(pts, axis=0)) if depth and len(pts) >= 8 else ()):
            x = np.sort(pts[:, ax])
            ok = np.nonzero(np.diff(x) > 1e-7)[0]
            if len(ok):
                j = ok[np.abs(ok - len(x) // 2).argmin()]
                cut = float(x[j] + x[j + 1]) / 2
                left = pts[:, ax] <= cut
                return int(ax), cut, self._build(pts[left], depth - 1), self._build(pts[~left], depth - 1)
        self.ncell += 1
        return self.ncell - 1

    def index(self, P):
        out, stack = np.zeros(len(P), dtype=int), [(self.tree, np.arange(len(P)))]
        while stack:
            node, idx = stack.pop()
            if isinstance(node, int):
                out[idx] = node
            else:
                m = P[idx, node[0]] <= node[1]
                stack += [(node[2], idx[m]), (node[3], idx[~m])]
        return out
