"""Plain-Python helper module imported by generated Scenic programs.

  tab(k)      truth table k at the current simulation step (environment over time,
              owned by the simulator).  A pure function of (k, step): conditions are
              evaluated a varying number of times per step, so nothing counts calls.
  ev(label)   append an event to the run's event log
  fault(site) cooperative fault point; the run's fault plan decides which hit of
              which site raises what
  Tok(label)  an opaque labelled action

State lives in the module-level ``CTX``; ``reset()`` is called by the harness before
every run.  Nothing here draws randomness or reads a clock.
"""

from scenic.core.dynamics.actions import Action


class Ctx:
    def __init__(self):
        self.reset()

    def reset(self):
        self.tables = {}  # k -> list of bools
        self.default = False
        self.log = []  # event log
        self.seq = 0
        self.fault_plan = {}  # site -> {hit_no: exception factory}
        self.hits = {}  # site -> count
        self.fired = []  # (site, hit, exception class name)
        self.sim = None  # current SimWorld simulation (set by simworld)
        self.enabled = True
        self.values = {}  # misc named values read by programs
        self.flags = set()  # state set by the program itself in the course of one simulation


CTX = Ctx()


def reset():
    CTX.reset()


def now():
    sim = CTX.sim
    return sim.currentTime if sim is not None else 0


def tab(k):
    t = now()
    row = CTX.tables.get(k)
    if row is None:
        return CTX.default
    if t < len(row):
        return bool(row[t])
    return bool(row[-1]) if row else CTX.default


def setflag(name):
    CTX.flags.add(name)


def flag(name):
    return name in CTX.flags


def tabv(k):
    """Like tab, but a truthy / falsy value that is not a bool (conditions are judged by
    their truth value, as everywhere in Python)."""
    return [2, 0.5, "x", (0,)][k % 4] if tab(k) else [0, 0.0, "", ()][k % 4]


def ev(label):
    CTX.seq += 1
    CTX.log.append((now(), "ev", label))
    return True


def evv(label, value):
    """Log and pass a value through (for use inside expressions)."""
    CTX.seq += 1
    CTX.log.append((now(), "ev", label))
    return value


def val(name):
    return CTX.values[name]


def prop(name, p):
    """Current value of property p of the most recently created simulation object with
    the given name (None before it exists)."""
    sim = CTX.sim
    if sim is None:
        return None
    for obj in reversed(sim.objects):
        if getattr(obj, "name", None) == name:
            return getattr(obj, p, None)
    return None


def ftab(site, k):
    """Condition with a fault point inside its evaluation."""
    fault(site)
    return tab(k)


def _make_fspec():
    from scenic.core.distributions import distributionFunction

    @distributionFunction
    def fspec(x):
        """Value computed at sampling time, with a fault point inside."""
        fault("spec")
        return 1

    return fspec


fspec = _make_fspec()


def _make_lift2():
    from scenic.core.distributions import distributionFunction

    @distributionFunction
    def lift2(a, b):
        """A user function lifted over random arguments."""
        return 10 * a + b

    return lift2


lift2 = _make_lift2()


def grej(k):
    """Guard helper: a guard whose evaluation raises a rejection when table k is false."""
    from scenic.core.distributions import RejectionException

    if not tab(k):
        raise RejectionException("guard rejected")
    return True


def fault(site):
    n = CTX.hits.get(site, 0) + 1
    CTX.hits[site] = n
    plan = CTX.fault_plan.get(site)
    if plan and n in plan:
        exc = plan[n]()
        CTX.fired.append((site, n, type(exc).__name__))
        CTX.log.append((now(), "fault", f"{site}#{n}:{type(exc).__name__}"))
        raise exc
    return True


class Tok(Action):
    """Opaque labelled action."""

    def __init__(self, label):
        self.label = label

    def applyTo(self, agent, simulation):
        CTX.log.append((now(), "apply", f"{getattr(agent, 'name', '?')}:{self.label}"))
        fault("applyTo")

    def __repr__(self):
        return f"Tok({self.label!r})"

    def __eq__(self, other):
        return isinstance(other, Tok) and other.label == self.label

    def __hash__(self):
        return hash(("Tok", self.label))


class SetVel(Action):
    """Set the agent's velocity in the stub world."""

    def __init__(self, vx, vy=0.0, vz=0.0):
        self.v = (float(vx), float(vy), float(vz))

    def applyTo(self, agent, simulation):
        CTX.log.append((now(), "apply", f"{getattr(agent, 'name', '?')}:vel{self.v}"))
        fault("applyTo")
        simulation.world_vel[id(agent)] = self.v

    def __repr__(self):
        return f"SetVel{self.v}"
