"""Run a DYN program on the real Scenic runtime under SimWorld and normalise the
outcome into the same shape the reference model (simverif.dyn.Ref) produces."""

import random
import warnings

import numpy

import scenic
from scenic.core.distributions import RejectionException
from scenic.core.dynamics.guards import InvariantViolation, PreconditionViolation

from . import simworld, userlib
from .userlib import CTX

warnings.filterwarnings("ignore")

_COMPILED = {}


def compile_prog(src, top=None, mode2D=False, cache=True):
    key = (src, top, mode2D)
    if cache and key in _COMPILED:
        return _COMPILED[key]
    sc = scenic.scenarioFromString(src, scenario=top, mode2D=mode2D)
    if cache:
        if len(_COMPILED) > 16:
            _COMPILED.clear()
        _COMPILED[key] = sc
    return sc


VENEER_AT_REST = dict(
    activity=0, currentScenario=None, currentBehavior=None, currentSimulation=None,
    evaluatingGuard=False, evaluatingRequirement=False, mode2D=False, lockedModel=None,
    loadingModel=False,
)


def veneer_dirty():
    """Names of veneer globals that are not in their at-rest state."""
    import scenic.syntax.veneer as v

    bad = [k for k, want in VENEER_AT_REST.items() if getattr(v, k) != want]
    for k in ("scenarioStack", "runningScenarios", "scenarios", "_globalParameters", "lockedParameters"):
        if len(getattr(v, k)):
            bad.append(k)
    return bad


def sanitize():
    """Isolation between runs that are not about process history (that is C14's job):
    collect abandoned generators now (their late close can rewrite veneer globals) and
    force the interpreter state back to rest.  Returns what had to be repaired."""
    import gc

    import scenic.syntax.veneer as v

    gc.collect()
    bad = veneer_dirty()
    for k in bad:
        if k in VENEER_AT_REST:
            setattr(v, k, VENEER_AT_REST[k])
        elif k == "_globalParameters":
            v._globalParameters = {}
        elif k == "lockedParameters":
            v.lockedParameters = set()
        else:
            setattr(v, k, [])
    return bad


def set_env(tables, fault_plan=None):
    userlib.reset()
    CTX.tables = {int(k): list(v) for k, v in tables.items()}
    if fault_plan:
        CTX.fault_plan = fault_plan


def run_impl(scenario, tables, schedule, max_steps, timestep, seed=0, raise_guards=False,
             fault_plan=None, sim_kwargs=None, world_kwargs=None):
    """Generate a scene (one attempt) and simulate once.  Returns the outcome dict."""
    set_env(tables, fault_plan)
    random.seed(seed)
    numpy.random.seed(seed)
    try:
        scene, _ = scenario.generate(maxIterations=1, verbosity=0)
    except RejectionException:
        return {"kind": "scene-reject", "time": 0, "log": list(CTX.log)}
    return simulate_scene(scene, schedule, max_steps, timestep, raise_guards, sim_kwargs, world_kwargs)


def simulate_scene(scene, schedule, max_steps, timestep, raise_guards=False, sim_kwargs=None,
                   world_kwargs=None):
    """Simulate an existing scene once under SimWorld (the environment must be set)."""
    CTX.log.clear()
    world = simworld.SimWorld(schedule=schedule, **(world_kwargs or {}))
    out = {}
    try:
        sim = world.simulate(
            scene,
            maxSteps=max_steps,
            maxIterations=1,
            timestep=float(timestep),
            verbosity=0,
            raiseGuardViolations=raise_guards,
            **(sim_kwargs or {}),
        )
    except PreconditionViolation as e:
        out = {"kind": "precondition", "who": e.behaviorName, "time": world.last.currentTime}
    except InvariantViolation as e:
        out = {"kind": "invariant", "who": e.behaviorName, "time": world.last.currentTime}
    except Exception as e:  # noqa: BLE001 - an escaping internal error is an outcome, not a harness failure
        import traceback

        out = {
            "kind": "exception",
            "exc": type(e).__name__,
            "msg": str(e)[:200],
            "where": traceback.format_exception(e)[-2][:300] if e.__traceback__ else "",
            "time": world.last.currentTime if world.last is not None else 0,
        }
    else:
        if sim is None:
            out = {"kind": "reject", "time": world.last.currentTime}
        else:
            res = sim.result
            acts = []
            for step in res.actions:
                acts.append(
                    [
                        (simworld.oname(a), [str(getattr(x, "label", x)) for x in xs])
                        for a, xs in step.items()
                    ]
                )
            out = {
                "kind": "ok",
                "time": sim.currentTime,
                "actions": acts,
                "ntraj": len(res.trajectory),
                "termtype": res.terminationType.name,
                "records": {k: (list(v) if isinstance(v, list) else v) for k, v in res.records.items()},
                "sim": sim,
            }
    out["log"] = list(CTX.log)
    out["world"] = world
    out["scene"] = scene
    return out


# -- log normalisation ----------------------------------------------------------
ORDERED_KINDS = ("ev", "create", "schedule", "executeActions", "apply", "step", "getProperties", "destroy")


def norm_log(log):
    """Keep the kinds whose order is documented; drop condition-evaluation events
    (conditions may be evaluated a varying number of times per step)."""
    out = []
    for t, kind, label in log:
        if kind in ORDERED_KINDS:
            if kind == "ev" and (label == "tw" or label == "tsw"):
                continue
            out.append((t, kind, label))
    return out


def first_diff(a, b):
    n = min(len(a), len(b))
    for i in range(n):
        if a[i] != b[i]:
            return i, a[i], b[i]
    if len(a) != len(b):
        return n, (a[n] if len(a) > n else None), (b[n] if len(b) > n else None)
    return None


def compare(impl, ref, strict_reject_log=False):
    """List of (clause, detail) differences between implementation and reference."""
    diffs = []
    if impl["kind"] != ref["kind"]:
        diffs.append(("result-kind", {"impl": impl["kind"], "ref": ref["kind"],
                                      "impl_time": impl.get("time"), "ref_time": ref.get("time"),
                                      "ref_why": ref.get("why"), "ref_who": ref.get("who")}))
        return diffs
    if impl["kind"] == "scene-reject":
        return diffs
    if impl["time"] != ref["time"]:
        diffs.append(("end-time", {"impl": impl["time"], "ref": ref["time"], "kind": impl["kind"]}))
    if impl["kind"] in ("precondition", "invariant"):
        if impl.get("who") != ref.get("who"):
            diffs.append(("guard-owner", {"impl": impl.get("who"), "ref": ref.get("who")}))
    il, rl = norm_log(impl["log"]), norm_log(ref["log"])
    if impl["kind"] == "ok" or strict_reject_log:
        d = first_diff(il, rl)
        if d is not None:
            diffs.append(("event-order", {"index": d[0], "impl": d[1], "ref": d[2]}))
    else:
        # rejected runs: everything before the rejection step must agree
        t = min(impl["time"], ref["time"])
        d = first_diff([e for e in il if e[0] < t], [e for e in rl if e[0] < t])
        if d is not None:
            diffs.append(("event-order-before-rejection", {"index": d[0], "impl": d[1], "ref": d[2]}))
        # destroy exactly once, last
        if [e for e in il if e[1] == "destroy"] != [il[-1]] if il else True:
            diffs.append(("destroy-once", {"impl_tail": il[-3:]}))
    if impl["kind"] == "ok":
        if impl["ntraj"] != ref["ntraj"]:
            diffs.append(("trajectory-length", {"impl": impl["ntraj"], "ref": ref["ntraj"]}))
        if impl["ntraj"] != impl["time"] + 1 or len(impl["actions"]) != impl["time"]:
            diffs.append(("one-state-per-step", {"ntraj": impl["ntraj"], "nactions": len(impl["actions"]), "time": impl["time"]}))
        ia = [[(n, list(x)) for n, x in step] for step in impl["actions"]]
        ra = [[(n, list(x)) for n, x in step] for step in ref["actions"]]
        if ia != ra:
            d = first_diff(ia, ra)
            diffs.append(("actions", {"step": d[0], "impl": d[1], "ref": d[2]}))
        if impl["termtype"] != ref["termtype"]:
            diffs.append(("termination-type", {"impl": impl["termtype"], "ref": ref["termtype"]}))
        ir = {k: v for k, v in impl["records"].items()}
        rr = {k: v for k, v in ref["records"].items()}
        if ir != rr:
            diffs.append(("records", {"impl": repr(ir)[:400], "ref": repr(rr)[:400]}))
    return diffs


# -- judging against the reference (all pin combinations; bug models for attribution) --
def judge(prog, impl, tables, schedule, max_steps, bug_models=(), ref_kwargs=None, cmp_kwargs=None):
    """Returns (verdict, diffs, ref_outcome, finding).

    verdict: 'ok' (matches the reference with default pins), 'pinned' (matches under a
    non-default pin combination: undocumented behaviour, unjudged), 'unsupported' (the
    reference declines: documentation silent), 'diff' (matches no pin combination).
    finding: name of a bug model that reproduces the implementation exactly, else None.
    """
    import itertools

    from . import dyn

    pin_names = sorted(dyn.DEFAULT_PINS)
    hints = {}
    if impl["kind"] == "reject":
        hints["ltl_reject_steps"] = {impl["time"]}
    if impl["kind"] == "scene-reject":
        hints["scene_reject"] = True

    def attempt(bugs):
        first = None
        for combo in itertools.product((True, False), repeat=len(pin_names)):
            pins = dict(zip(pin_names, combo))
            ref = dyn.Ref(prog, tables, schedule, max_steps, pins=pins, hints=hints, bugs=bugs,
                          **(ref_kwargs or {}))
            try:
                r = ref.run()
            except dyn.Unsupported as e:
                return "unsupported", str(e), None
            diffs = compare(impl, r, **(cmp_kwargs or {}))
            if not diffs:
                return ("ok" if all(combo) else "pinned"), None, r
            if first is None:
                first = (diffs, r)
        return "diff", first[0], first[1]

    verdict, info, ref = attempt({})
    finding = None
    if verdict == "diff":
        for b in bug_models:
            v2, _, _ = attempt({b: True})
            if v2 in ("ok", "pinned"):
                if b == "rvltl":
                    # attribute to the until-offset bug only if the emulation with that
                    # one bug repaired no longer reproduces the implementation
                    v3, _, _ = attempt({"rvltl": True, "rvltl_nobug": True})
                    if v3 in ("ok", "pinned"):
                        # reproduced even with the index range repaired: another
                        # deficiency of rv_ltl's compositional evaluation (`until` commits
                        # to the first position whose right operand is truthy *now*)
                        finding = "rvltl_compositional"
                        break
                finding = b
                break
    return verdict, info, ref, finding
