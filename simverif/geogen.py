"""GEO fragment: tape -> small Scenic program (1-4 objects, workspace, containers, collision and
visibility flags, hard/soft user requirements) + the description the oracle needs to re-evaluate it.

Three layouts: classic(), occlusion() (observers, occluding walls, `visible from` / `not visible from` targets) and tower() (a
DifferenceRegion container, objects at very different altitudes).  0 on the tape is always the simplest choice (one default box in a rectangular workspace, no
requirements).  Everything the oracle must know (containers, predicates, shapes) is in the
returned description; the Scenic text is rendered from the same description.
"""

import math

DIMC = [1, 2, 0.5, 1.5, 0.3]
DIMR = [(0.5, 1.5), (1, 2), (0.2, 0.6), (1.5, 2.5)]
POLYS = [  # (points, a point well inside)
    ([(-4, -3), (4, -3), (4, 0), (0, 0), (0, 3), (-4, 3)], (-2, -1)),            # L, non-convex
    ([(-4, -2), (0, -4), (4, -2), (3, 3), (-3, 3)], (0, 0)),                      # convex pentagon
    ([(-5, -1), (-1, -1), (-1, -4), (2, -4), (2, 4), (-1, 4), (-1, 1.5), (-5, 1.5)], (0.5, 0)),  # T
]
SHAPES = {"box": None, "cyl": "CylinderShape()", "cone": "ConeShape()", "sph": "SpheroidShape()", "mesh": "MeshShape(twobody())",
          "lmesh": "MeshShape(lprism())"}


def lprism():
    """Thick L-shaped prism: one non-convex body whose solid can swallow a small object without surface contact."""
    import shapely.geometry
    import trimesh
    return trimesh.creation.extrude_polygon(shapely.geometry.Polygon([(0, 0), (3, 0), (3, 1.2), (1.2, 1.2), (1.2, 3), (0, 3)]), 1.5)


def twobody():
    """Two disjoint unit-ish boxes in one mesh (imported by generated programs)."""
    import trimesh
    a = trimesh.creation.box((1, 1, 1))
    b = trimesh.creation.box((0.8, 1.2, 0.6))
    b.apply_translation((1.6, 0.3, 0.1))
    return trimesh.util.concatenate([a, b])


def region_text(s):
    if s["kind"] == "diff":
        return f"{region_text(s['A'])}.difference({region_text(s['B'])})"
    if s["kind"] == "rect":
        return f"RectangularRegion(({s['pos'][0]}, {s['pos'][1]}), {s['heading']}, {s['w']}, {s['l']})"
    if s["kind"] == "box":
        return (f"BoxRegion(dimensions=({s['dims'][0]}, {s['dims'][1]}, {s['dims'][2]}), position=({s['pos'][0]}, {s['pos'][1]}, "
                f"{s['pos'][2]}), rotation=Orientation.fromEuler({s['yaw']}, 0, 0))")
    return "PolygonalRegion([" + ", ".join(f"({x}, {y})" for x, y in s["points"]) + "])"


def gen_region(t, tag, kinds, small):
    k = kinds[t.draw(len(kinds), tag + "kind")]
    sc = 0.6 if small else 1.0
    off = [t.choice([0, 1, -1.5], tag + "ox"), t.choice([0, 0.5, -1], tag + "oy")] if small else [0, 0]
    if k == "rect":
        return {"kind": "rect", "pos": off, "heading": t.choice([0, 0.3, 1.1], tag + "hd"),
                "w": sc * t.choice([10, 8, 12, 6], tag + "w"), "l": sc * t.choice([8, 10, 6], tag + "l"), "safe": off + [0]}
    if k == "box":
        cz = t.choice([0, 1], tag + "cz")
        return {"kind": "box", "pos": off + [cz], "yaw": t.choice([0, 0.4], tag + "yaw"),
                "dims": [sc * t.choice([10, 8, 12], tag + "w"), sc * t.choice([8, 10, 6], tag + "l"), t.choice([6, 8, 5], tag + "h")],
                "safe": off + [cz]}
    pts, safe = POLYS[t.draw(len(POLYS), tag + "shape")]
    sc *= 1.5
    f = (lambda p: (p[0] * sc + off[0], p[1] * sc + off[1]))
    return {"kind": "poly", "points": [f(p) for p in pts], "safe": list(f(safe)) + [0]}


def bbox(s):
    """Rough xy range (xlo, xhi, ylo, yhi) of a region (headings ignored): only used to keep thresholds satisfiable."""
    if s["kind"] == "poly":
        xs, ys = [p[0] for p in s["points"]], [p[1] for p in s["points"]]
        return min(xs), max(xs), min(ys), max(ys)
    w, l = (s["w"], s["l"]) if s["kind"] == "rect" else s["dims"][:2]
    return s["pos"][0] - w / 2, s["pos"][0] + w / 2, s["pos"][1] - l / 2, s["pos"][1] + l / 2


def satisfiable(p, ranges, turns):
    """Threshold atoms must cut the middle 80% of the object's coordinate range; heading comparisons need a random heading."""
    if p[0] in ("or", "and", "not"):
        return all(satisfiable(q, ranges, turns) for q in p[1:])
    if p[0] == "hdg_lt":
        return turns[p[1]] or turns[p[2]]
    if p[0] in ("dist_gt", "dist_lt", "x_lt") and ranges[p[1]] is None and ranges[p[2]] is None:
        return False  # both objects at fixed positions: the atom is a constant
    if p[0] in ("x_lt_c", "y_lt_c"):
        r = ranges[p[1]]
        if r is None:
            return False
        lo, hi = r[:2] if p[0] == "x_lt_c" else r[2:]
        return lo + 0.1 * (hi - lo) <= p[2] <= hi - 0.1 * (hi - lo)
    return True


def gen_dim(t, tag):
    k = t.weighted([3, 2, 3], tag)
    if k == 0:
        return None
    if k == 1:
        return ("c", t.choice(DIMC, tag + "c"))
    return ("r",) + DIMR[t.draw(len(DIMR), tag + "r")]


def dim_text(d):
    return str(d[1]) if d[0] == "c" else f"Range({d[1]}, {d[2]})"


def gen_atom(t, n, tag):
    kinds = ["y_lt_c", "x_lt_c"] + (["dist_gt", "x_lt", "dist_lt", "hdg_lt"] if n >= 2 else [])
    k = t.choice(kinds, tag + "kind")
    i = t.draw(n, tag + "i")
    if k in ("y_lt_c", "x_lt_c"):
        return (k, i, t.choice([0, 1, -1], tag + "c"))
    j = (i + 1 + t.draw(n - 1, tag + "j")) % n
    if k == "dist_gt":
        return (k, i, j, t.choice([1.5, 2.5, 1, 3], tag + "d"))
    if k == "dist_lt":
        return (k, i, j, t.choice([5, 8, 3.5], tag + "d"))
    return (k, i, j)


def atom_keys(p):
    """(kind, object) keys of the atoms: two requirements sharing a key could contradict each other."""
    if p[0] in ("or", "and", "not"):
        return set().union(*(atom_keys(q) for q in p[1:]))
    return {(p[0][:4], p[1])} | ({(p[0][:4], p[2])} if p[0] in ("dist_gt", "dist_lt", "x_lt", "hdg_lt") else set())


def gen_pred(t, n, tag):
    form = t.weighted([6, 1, 1, 1], tag + "form")
    a = gen_atom(t, n, tag + "a.")
    if form == 0:
        return a
    if form == 3:
        return ("not", a)
    return (["", "or", "and"][form], a, gen_atom(t, n, tag + "b."))


def pred_text(p, names):
    k = p[0]
    if k in ("or", "and"):
        return f"({pred_text(p[1], names)}) {k} ({pred_text(p[2], names)})"
    if k == "not":
        return f"not ({pred_text(p[1], names)})"
    a = names[p[1]]
    if k == "y_lt_c":
        return f"{a}.position.y < {p[2]}"
    if k == "x_lt_c":
        return f"{a}.position.x < {p[2]}"
    b = names[p[2]]
    return {"dist_gt": f"(distance from {a} to {b}) > {p[3] if len(p) > 3 else ''}",
            "dist_lt": f"(distance from {a} to {b}) < {p[3] if len(p) > 3 else ''}",
            "x_lt": f"{a}.position.x < {b}.position.x", "hdg_lt": f"{a}.heading < {b}.heading"}[k]


def eval_pred(p, objs, eps=1e-7):
    """Kleene value of a predicate on sampled objects: True / False / None (within eps of a threshold)."""
    k = p[0]
    if k == "not":
        v = eval_pred(p[1], objs, eps)
        return None if v is None else not v
    if k in ("or", "and"):
        a, b = eval_pred(p[1], objs, eps), eval_pred(p[2], objs, eps)
        if k == "or":
            return True if a or b else (None if a is None or b is None else False)
        return False if a is False or b is False else (None if a is None or b is None else True)
    pos = lambda o: (float(o.position.x), float(o.position.y), float(o.position.z))  # noqa: E731
    a = objs[p[1]]
    if k == "y_lt_c":
        d = p[2] - pos(a)[1]
    elif k == "x_lt_c":
        d = p[2] - pos(a)[0]
    else:
        b = objs[p[2]]
        dist = math.dist(pos(a), pos(b))
        d = {"dist_gt": lambda: dist - p[3], "dist_lt": lambda: p[3] - dist, "x_lt": lambda: pos(b)[0] - pos(a)[0],
             "hdg_lt": lambda: float(b.heading) - float(a.heading)}[k]()
    return None if abs(d) <= eps else d > 0


def classic(t):
    two = t.chance(1, 4, "mode2D")
    ws = gen_region(t, "ws.", ["rect", "poly"] if two else ["rect", "box", "poly"], False)
    conts = [gen_region(t, "c0.", ["rect", "poly"] if two else ["rect", "box", "poly"], True)] if t.chance(2, 5, "container") else []
    n = 1 + t.weighted([2, 4, 4, 3], "nobj")
    has_ego = t.chance(1, 2, "ego")
    crowd = t.choice([0.5, 0.25, 0.8], "crowd")
    wb = bbox(ws)
    ex, ey = (wb[1] - wb[0]) / 2, (wb[3] - wb[2]) / 2
    streak = t.chance(1, 6, "streak")
    lines, objs, names, ranges = [], [], [], []
    meshy = False
    for i in range(n):
        tag = f"o{i}."
        ego = has_ego and i == 0
        name = "ego" if ego else "abcd"[i]
        o = {"name": name, "ego": ego}
        o["shape"] = "box" if two else ["box", "cyl", "cone", "sph", "mesh"][t.weighted([10, 2, 2, 2, 1], tag + "shape")]
        meshy |= o["shape"] == "mesh"
        o["dims"] = [gen_dim(t, tag + d) for d in ("width", "length", "height")]
        o["cont"] = 0 if conts and t.chance(2, 5, tag + "cont") else None
        pk = t.weighted([4, 0 if two or ws["kind"] == "box" else 2, 3, 0 if not conts else 8 if o["cont"] == 0 else 1, 2 if ego else 0], tag + "pos")
        z = ws["safe"][2]
        if pk in (0, 1):
            o["pos"] = "in workspace" if pk == 0 else "on workspace"
            ranges.append(wb)
        elif pk == 2:
            a, b = round(crowd * ex, 3), round(crowd * ey, 3)
            cx, cy = ws["safe"][0], ws["safe"][1]
            o["pos"] = f"at (Range({cx - a}, {cx + a}), Range({cy - b}, {cy + b}){'' if two else f', {z}'})"
            ranges.append((cx - a, cx + a, cy - b, cy + b))
        elif pk == 3:
            o["pos"] = "in r0"
            ranges.append(bbox(conts[0]))
        else:
            s = ws["safe"]
            o["pos"] = f"at ({s[0]}, {s[1]}{'' if two else f', {s[2]}'})"
            ranges.append(None)
        fk = t.weighted([2, 3, 0 if two else 2, 0 if two else 2], tag + "facing")
        o["facing"] = [None, "Range(0, 360) deg", "(Range(0, 360) deg, Range(-30, 30) deg, 0)",
                       "(Range(-180, 180) deg, Range(-40, 40) deg, Range(-25, 25) deg)"][fk]
        o["allow"] = ["F", "T", "U"][t.weighted([5, 1, 2], tag + "allow")]
        if ego:
            o["vdist"] = t.choice([50, 4, 6, 3, 8], tag + "vdist")
            o["vang"] = t.choice([None, (120, 60), (200, 100)], tag + "vang")
            o["visible"] = None
        elif two:
            o["visible"] = None if has_ego and t.chance(1, 2, tag + "vis") else False  # Object2D requires visibility by default
        else:
            o["visible"] = True if has_ego and t.chance(2, 5, tag + "vis") else None
        objs.append(o)
        names.append(name)
    # layouts the built-in checks must get right on their own: 1 = two objects at FIXED poses and sizes (static bounds) that
    # overlap, with random collision flags; 2 = a small convex object sampled inside the bounding box of a fixed non-convex solid
    # (L prism), so that it is often swallowed by the solid without touching its surface
    feature = t.weighted([7, 2, 2], "feature") if n >= 2 else 0
    if feature == 1 and ws["kind"] == "box":
        feature = 0  # Scenario.validate() cannot compile a fixed object with a random allowCollisions inside a mesh container
    s = ws["safe"]
    if feature and has_ego and n > 2 and ranges[0] is None:
        objs[0]["pos"], ranges[0] = "in workspace", wb
    if feature == 1 or (feature == 2 and two):
        dx, dy = t.choice([(0.2, 0.1), (0.6, 0.4), (-1.6, 0)], "fix.offset")
        for k, o in enumerate(objs[-2:]):
            o["dims"] = [("c", t.choice(DIMC, f"fix{k}.{d}")) for d in "wlh"]
            o["pos"] = f"at ({round(s[0] + k * dx, 3)}, {round(s[1] + k * dy, 3)}{'' if two else f', {s[2]}'})"
            o["facing"] = t.choice([None, "40 deg"], f"fix{k}.facing")
            # validate() raises RandomControlFlowError for a fixed object with a constant False flag that follows an object with a
            # random flag, so the constant flag may only come first
            o["allow"] = "U" if k == 1 or any(p["allow"] == "U" for p in objs[:-2]) else t.choice(["U", "F"], "fix0.allow")
            o["cont"] = None
        ranges[-2:] = [None, None]
    elif feature == 2:
        host, guest = objs[-2], objs[-1]
        host.update(shape="lmesh", dims=[("c", 3), ("c", 3), ("c", 1.5)], pos=f"at ({s[0]}, {s[1]}, {s[2]})", facing=None, allow="F", cont=None)
        gd = t.choice([("c", 0.3), ("r", 0.2, 0.6), ("c", 0.5)], "embed.size")
        guest.update(shape=guest["shape"] if guest["shape"] in ("box", "cyl", "cone", "sph") else "box", dims=[gd] * 3, allow="F", cont=None,
                     pos=f"in BoxRegion(dimensions=(3, 3, 1.2), position=({s[0]}, {s[1]}, {s[2]}))")
        if not guest["ego"]:
            guest["visible"] = None
        ranges[-2:] = [None, (s[0] - 1.5, s[0] + 1.5, s[1] - 1.5, s[1] + 1.5)]
    return two, ws, conts, objs, ranges, [None, "fixed-pair", "fixed-pair" if two else "embedded"][feature], streak, []


def new_obj(name, pos, dims, **kw):
    return dict({"name": name, "ego": False, "shape": "box", "dims": [("c", d) if d else None for d in dims], "pos": pos, "facing": None,
                 "allow": "F", "cont": None, "visible": None}, **kw)


def occlusion(t):
    """3D: an ego (+ optionally an OrientedPoint observer) with a short visibleDistance, thin occluding walls in front of it (one may
    be far longer than the visibleDistance, with its centre out of range), and 2-4 small targets declared `visible from <observer>`,
    `not visible from <observer>` or `with requireVisible True`, in front of or behind the walls."""
    D = t.choice([8, 30, 12], "oc.D")
    ws = {"kind": "rect", "pos": [0, 0], "heading": 0, "w": 400, "l": 400}
    objs, ranges, pre, points = [new_obj("ego", "at (0, 0, 0.5)", [None] * 3, ego=True, vdist=D, vang=None)], [None], [], {}
    if t.chance(1, 2, "oc.point"):
        p, vd = (t.choice([3, -2, 0], "oc.px"), t.choice([-1, 0.5], "oc.py"), 0.5), t.choice([12, 8, 30], "oc.pD")
        pre.append(f"obs = new OrientedPoint at ({p[0]}, {p[1]}, {p[2]}), with visibleDistance {vd}, with viewRayCount (12, 8)")
        points["obs"] = (p, vd)
    for k in range(1 + t.draw(2, "oc.nwalls")):
        ln, hh = t.choice([100, 8, 3], f"oc.w{k}.len"), t.choice([3, 6, 1.2], f"oc.w{k}.h")
        cx = t.choice([45, 0, -40] if ln == 100 else [0, 2, -3], f"oc.w{k}.cx")
        objs.append(new_obj(f"w{k}", f"at ({cx}, Range(2, 5), {hh / 2})", [ln, 0.5, hh], facing=t.choice([None, "Range(-15, 15) deg"], f"oc.w{k}.f")))
        ranges.append((cx, cx, 2, 5))
    ymax = min(D - 1, 12)
    for k in range(2 + t.draw(3, "oc.ntargets")):
        spec = 0 if k == 0 else t.weighted([4, 2, 2, 1] if k == 1 else [2, 1, 1, 1], f"oc.t{k}.spec")  # >= 1 (mostly >= 2) `visible from`
        who = "obs" if points and t.chance(1, 2, f"oc.t{k}.who") else "ego"
        o = new_obj("abcd"[k], f"at (Range(-4, 4), Range(1, {ymax}), 0.5)", [t.choice([0.5, 1, 0.3], f"oc.t{k}.w"), t.choice([0.5, 1], f"oc.t{k}.l"), None],
                    visible=True if spec == 1 else None)
        if spec in (0, 2):
            o["extra"] = f", {'not ' if spec == 2 else ''}visible from {who}"
            o["seen"] = (("obj", 0) if who == "ego" else ("point",) + points[who], spec == 0)
        objs.append(o)
        ranges.append((-4, 4, 1, ymax))
    return False, ws, [], objs, ranges, "occlusion", False, pre


def tower(t):
    """3D: a tall box minus a polygonal keep-out footprint (a DifferenceRegion) as workspace or as regionContainedIn, and objects at
    very different altitudes, the first one mostly near the ground."""
    A = {"kind": "box", "pos": [0, 0, 150], "yaw": 0, "dims": [40, 40, 320]}
    if t.chance(1, 3, "tw.poly"):
        B = {"kind": "poly", "points": [(2.5 * x, 2.5 * y) for x, y in POLYS[0][0]]}
    else:
        B = {"kind": "rect", "pos": [t.choice([0, 3], "tw.bx"), t.choice([0, -2], "tw.by")], "heading": t.choice([0, 0.3], "tw.hd"),
             "w": t.choice([20, 12], "tw.w"), "l": t.choice([20, 16], "tw.l")}
    diff = {"kind": "diff", "A": A, "B": B}
    as_cont = t.chance(1, 3, "tw.as-container")
    objs, ranges = [], []
    for k in range(2 + t.draw(3, "tw.nobj")):
        z = [0.5, 150, 120, 260, 30][t.weighted([6, 1, 1, 1, 1] if k == 0 else [2, 3, 3, 1, 1], f"tw.o{k}.z")]
        pos = "in workspace" if t.chance(1, 6, f"tw.o{k}.in") else f"at (Range(-18, 18), Range(-18, 18), {z})"
        objs.append(new_obj("abcd"[k], pos, [t.choice([1, 2, 0.5], f"tw.o{k}.{d}") for d in "wlh"],
                            facing=t.choice([None, "Range(0, 360) deg"], f"tw.o{k}.f"), allow=t.choice(["F", "U"], f"tw.o{k}.allow"),
                            cont=0 if as_cont and t.draw(4, f"tw.o{k}.cont") else None))
        ranges.append((-18, 18, -18, 18))
    return False, (A if as_cont else diff), ([diff] if as_cont else []), objs, ranges, "tower", False, []


def generate(t):
    two, ws, conts, objs, ranges, feature, streak, pre = (classic, occlusion, tower)[t.weighted([8, 2, 2], "layout")](t)
    n, names, lines = len(objs), [o["name"] for o in objs], []
    meshy = any(o["shape"] in ("mesh", "lmesh") for o in objs)
    nh, ns = t.weighted([3, 3, 2, 1], "nhard"), t.weighted([3, 2, 1], "nsoft")
    reqs = [{"pred": gen_pred(t, n, f"h{k}."), "prob": None} for k in range(nh)]
    reqs += [{"pred": gen_pred(t, n, f"s{k}."), "prob": t.choice([0.5, 0.25, 0.75], f"s{k}.p")} for k in range(ns)]
    if streak:  # a requirement that rejects about 9 candidates in 10
        i = t.draw(n, "streak.i")
        if ranges[i]:
            reqs.insert(0, {"pred": ("y_lt_c", i, round(ranges[i][2] + 0.1 * (ranges[i][3] - ranges[i][2]), 3)), "prob": None})
    seen, kept = set(), []
    for r in reqs:  # drop unsatisfiable thresholds and requirements that could contradict an earlier one (same atom kind, same object)
        if satisfiable(r["pred"], ranges, ["Range" in (o["facing"] or "") for o in objs]) and not (atom_keys(r["pred"]) & seen):
            kept.append(r)
            seen |= atom_keys(r["pred"])
    order = t.permutation(len(kept), "reqorder") if len(kept) > 1 and t.chance(1, 3, "shuffle-reqs") else range(len(kept))
    reqs = [kept[k] for k in order]

    if meshy:
        lines.append("from simverif.geogen import twobody, lprism")
    lines.append(f"workspace = Workspace({region_text(ws)})")
    for k, c in enumerate(conts):
        lines.append(f"r{k} = {region_text(c)}")
    lines += pre
    for o in objs:
        s = f"{o['name']} = new Object {o['pos']}"
        if SHAPES[o["shape"]]:
            s += f", with shape {SHAPES[o['shape']]}"
        for d, nm in zip(o["dims"], ("width", "length", "height")):
            if d:
                s += f", with {nm} {dim_text(d)}"
        if o["facing"]:
            s += f", facing {o['facing']}"
        if o["allow"] != "F":
            s += ", with allowCollisions " + ("True" if o["allow"] == "T" else "Uniform(True, False)")
        if o["cont"] is not None:
            s += f", with regionContainedIn r{o['cont']}"
        if o["visible"] is not None:
            s += f", with requireVisible {o['visible']}"
        if o["ego"]:
            s += f", with visibleDistance {o['vdist']}" + ("" if two else ", with viewRayCount (12, 8)")  # few rays: canSee stays cheap
            if o["vang"]:
                s += f", with viewAngle {o['vang'][0]} deg" if two else f", with viewAngles ({o['vang'][0]} deg, {o['vang'][1]} deg)"
        lines.append(s + o.get("extra", ""))
    for r in reqs:
        r["line"] = len(lines) + 1
        lines.append(("require " if r["prob"] is None else f"require[{r['prob']}] ") + pred_text(r["pred"], names))
    # every visibility obligation: target index, observer (("obj", index) or ("point", position, visibleDistance)), must-be-visible?
    vis = [{"target": k, "observer": o["seen"][0], "positive": o["seen"][1]} for k, o in enumerate(objs) if o.get("seen")]
    if objs[0]["ego"]:  # requireVisible (the default of Object2D) is visibility from the ego
        vis += [{"target": k, "observer": ("obj", 0), "positive": True} for k, o in enumerate(objs)
                if k and (o["visible"] is True or (two and o["visible"] is None))]
    return {"mode2D": two, "ws": ws, "conts": conts, "objs": objs, "reqs": reqs, "streak": streak, "feature": feature, "vis": vis,
            "text": "\n".join(lines) + "\n"}
