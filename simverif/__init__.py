"""Deterministic simulation with fault injection for Scenic (see /verif/DESIGN.md)."""
