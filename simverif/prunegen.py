"""Generator of Scenic programs for C08 (pruning) + the plain-Python reference data that goes with each.

gen(tape) -> Prog: the program text and, per object, what the oracle needs without asking scenic:
the ORIGINAL sampling region and the container as regionref predicates, the offset between the
sampled base point and the position (``on`` specifier), visibility / field-alignment flags, and the
user requirements as (text, python predicate) pairs.  Value 0 of every draw is the simplest choice.
"""

import math
import types

import numpy as np

from . import regionref as rr

SHAPES = {  # parts: (shell, [holes]) in a 3x3 local frame (same family as C03)
    "L": [([(0, 0), (3, 0), (3, 1.5), (1.5, 1.5), (1.5, 3), (0, 3)], [])],
    "ring": [([(0, 0), (3, 0), (3, 3), (0, 3)], [[(1, 1), (2, 1), (2, 2), (1, 2)]])],
    "square": [([(0, 0), (3, 0), (3, 3), (0, 3)], [])],
    "two": [([(0, 0), (1.4, 0), (1.4, 3), (0, 3)], []), ([(1.6, 0), (3, 0), (3, 3), (1.6, 3)], [])],
}
HEADER = ("import math\nimport trimesh\nimport shapely.geometry as sg\nfrom scenic.core.vectors import Orientation\n"
          "def ext(parts, h):\n    return trimesh.util.concatenate([trimesh.creation.extrude_polygon(sg.Polygon(s, hs), h) for s, hs in parts])\n")
ANG = [0.0, 0.4, -1.1, math.pi / 2, 2.5]
num = lambda x: repr(round(float(x), 6))  # noqa: E731
vec = lambda c: "Vector(%s, %s, %s)" % tuple(num(x) for x in c)  # noqa: E731
norm_angle = lambda a: (a + math.pi) % math.tau - math.pi  # noqa: E731


def zig(v):
    return ((v + 1) // 2) * (1 if v % 2 else -1)


def rings_of(parts):
    return [np.array(r, float) for shell, holes in parts for r in [shell] + holes]


# -- regions: (scenic expression, reference predicate) -------------------------------------------
def region2d(t, tag, c, size, kinds=("rect", "circle", "poly")):
    kind = t.choice(kinds, tag + "kind")
    if kind == "rect":
        hd, w, l = ANG[t.draw(3, tag + "hd")], size, size * (1 + 0.25 * t.draw(3, tag + "l"))
        return f"RectangularRegion({vec(c)}, {num(hd)}, {num(w)}, {num(l)})", rr.RectRef(c, hd, w, l)
    if kind == "circle":
        return f"CircularRegion({vec(c)}, {num(size / 2)})", rr.DiscRef(c, size / 2)
    shape, yaw, s = t.choice(sorted(SHAPES), tag + "shape"), ANG[t.draw(3, tag + "yaw")], size / 3
    cy, sy = math.cos(yaw), math.sin(yaw)
    f = lambda p: (round(c[0] + s * ((p[0] - 1.5) * cy - (p[1] - 1.5) * sy), 6), round(c[1] + s * ((p[0] - 1.5) * sy + (p[1] - 1.5) * cy), 6))  # noqa: E731
    parts = [([f(p) for p in sh], [[f(p) for p in h] for h in hs]) for sh, hs in SHAPES[shape]]
    polys = ", ".join(f"sg.Polygon({sh!r}, {hs!r})" for sh, hs in parts)
    txt = f"PolygonalRegion(polygon=sg.MultiPolygon([{polys}]), z={num(c[2])})"
    return txt, rr.PolyRef(rings_of(parts), (0.0, 0.0, c[2]), kind="polygon", desc={"shape": shape})


def region3d(t, tag, c, size, hz):
    ypr = (ANG[t.draw(3, tag + "yaw")], 0.0, 0.0) if t.draw(3, tag + "rot") else (0.0, 0.0, 0.0)
    rot = f", rotation=Orientation.fromEuler({num(ypr[0])}, 0, 0)" if ypr[0] else ""
    if t.draw(2, tag + "mesh") == 0:
        dims = (size, size * (1 + 0.25 * t.draw(3, tag + "l")), hz)
        return f"BoxRegion(dimensions=({num(dims[0])}, {num(dims[1])}, {num(hz)}), position={vec(c)}{rot})", rr.BoxRef(dims, c, ypr)
    shape = t.choice(sorted(SHAPES), tag + "shape")
    parts, sc = SHAPES[shape], size / 3
    rings = [(r - 1.5) * sc for r in rings_of(parts)]
    txt = f"MeshVolumeRegion(ext({parts!r}, 1.0), dimensions=({num(size)}, {num(size)}, {num(hz)}), position={vec(c)}{rot})"
    return txt, rr.PolyRef(rings, c, hz, ypr, kind="meshvol", desc={"shape": shape})


def dim(t, tag, base=1.0):
    """A size: constant, Range, or arithmetic over Ranges (the supportInterval paths of + - * rsub)."""
    k = t.weighted([3, 3, 3, 1, 1], tag + "kind")
    a = base * (0.5 + 0.25 * t.draw(5, tag + "a"))
    b = a + base * 0.25 * (1 + t.draw(4, tag + "b"))
    return [num(a), f"Range({num(a)}, {num(b)})", f"(Range({num(b)}, {num(b + 0.5)}) - Range(0, {num(b - a)}))",
            f"(Range({num(a / 2)}, {num(b / 2)}) * 2)", f"({num(2 * b)} - Range({num(b)}, {num(2 * b - a)}))"][k]


# -- requirements in every form relations.py matches (and a few it must not match) ---------------
FORMS = [  # (template over Q a b c m, python predicate)
    ("{Q} < {b}", lambda q, a, b, c, m: q < b), ("{Q} <= {b}", lambda q, a, b, c, m: q <= b),
    ("{Q} > {a}", lambda q, a, b, c, m: q > a), ("{Q} >= {a}", lambda q, a, b, c, m: q >= a),
    ("{b} > {Q}", lambda q, a, b, c, m: b > q), ("{a} <= {Q}", lambda q, a, b, c, m: a <= q),
    ("{b} >= {Q}", lambda q, a, b, c, m: b >= q), ("{a} < {Q}", lambda q, a, b, c, m: a < q),
    ("{a} < {Q} < {b}", lambda q, a, b, c, m: a < q < b), ("{a} <= {Q} <= {b}", lambda q, a, b, c, m: a <= q <= b),
    ("{b} > {Q} > {a}", lambda q, a, b, c, m: b > q > a), ("{b} >= {Q} >= {a}", lambda q, a, b, c, m: b >= q >= a),
    ("{a} < {Q} <= {b} < 1000", lambda q, a, b, c, m: a < q <= b),
    ("abs({Q}) < {c}", lambda q, a, b, c, m: abs(q) < c), ("abs({Q}) <= {c}", lambda q, a, b, c, m: abs(q) <= c),
    ("{c} > abs({Q})", lambda q, a, b, c, m: c > abs(q)), ("{c} >= abs({Q})", lambda q, a, b, c, m: c >= abs(q)),
    ("abs({Q} - {m}) < {c}", lambda q, a, b, c, m: abs(q - m) < c), ("abs({Q} + {m}) <= {c}", lambda q, a, b, c, m: abs(q + m) <= c),
    ("abs({m} - {Q}) < {c}", lambda q, a, b, c, m: abs(m - q) < c), ("abs({m} + {Q}) < {c}", lambda q, a, b, c, m: abs(m + q) < c),
    ("{c} > abs({Q} - {m})", lambda q, a, b, c, m: c > abs(q - m)),
    # lower bounds on an absolute value (a = the bound): they bound nothing and must not be turned into |Q| <= a
    ("abs({Q}) >= {a}", lambda q, a, b, c, m: abs(q) >= a), ("abs({Q}) > {a}", lambda q, a, b, c, m: abs(q) > a),
    ("{a} <= abs({Q})", lambda q, a, b, c, m: a <= abs(q)), ("{a} < abs({Q} - {m})", lambda q, a, b, c, m: a < abs(q - m)),
    ("abs({Q} + {m}) >= {a}", lambda q, a, b, c, m: abs(q + m) >= a), ("{a} <= abs({Q}) <= {c}", lambda q, a, b, c, m: a <= abs(q) <= c),
    ("{c} >= abs({Q} - {m}) > {a}", lambda q, a, b, c, m: c >= abs(q - m) > a),
    ("{Q} < {r}", None),  # r is a random "constant" (a Range bound to a name): must not be matched; not re-evaluated
]
KINDS = ["require {e}", "require[0.5] {e}", "terminate when {e}", "record {e} as rec{i}", "require always {e}"]


def requirement(t, tag, i, quantity, target, consts, scale, diffs=(0.0,)):
    """One statement about (relative heading | distance) of `target` w.r.t. the ego; `diffs` = heading
    differences that occur between cells of the field (bounds are placed around one of them)."""
    if quantity == "rh":
        Q = ["(relative heading of {x})", "(relative heading of {x} from ego)"][t.weighted([7, 1], tag + "q")]
        d, w = diffs[t.draw(len(diffs), tag + "diff")], [0.3, 0.6, 1.0, 2.0][t.draw(4, tag + "w")]
        a, b, c, m = d - w, d + [0.3, 0.6, 1.5][t.draw(3, tag + "w2")], abs(d) + w, (d if t.draw(2, tag + "m") else 0.0)
    else:
        Q = ["(distance to {x})", "(distance from {x})", "(distance from ego to {x})"][t.weighted([3, 2, 1], tag + "q")]
        a, w = scale * [0.0, 0.08, 0.3, 0.6][t.draw(4, tag + "lo")], scale * [0.5, 0.25, 1.0, 0.12][t.draw(4, tag + "w")]
        b, c, m = a + w, scale * [0.5, 0.25, 1.0][t.draw(3, tag + "c")], scale * [0.0, 0.2, -0.12, 0.5][t.draw(4, tag + "m")]
    fi = t.draw(len(FORMS), tag + "form")
    tmpl, pred = FORMS[fi]
    if quantity == "rh" and "{m}" in tmpl and m:  # |Q - d| < w, written with either sign of the constant
        c, m = w, (-m if "+" in tmpl else m)
    if "abs" in tmpl and "{a}" in tmpl:  # a lower bound that leaves something feasible; one time in three negative, i.e. trivially true
        a = (0.5 * w if "{m}" in tmpl and m else max(abs(d) - w, 0.05)) if quantity == "rh" else scale * [0.1, 0.3, 0.05][t.draw(3, tag + "labs")]
        a = [a, a, -0.5, a, a, -0.05 * scale][t.draw(6, tag + "neg")]
    named = t.draw(4, tag + "named") == 3  # constants through a global name / an expression
    val = {n: round(float(v), 6) for n, v in (("a", a), ("b", b), ("c", c), ("m", m))}

    def k(name):
        if named:
            consts.append(f"K{i}{name} = {num(val[name])}")
            return f"K{i}{name}"
        if quantity == "rh" and t.draw(3, f"{tag}deg{name}") == 2:  # the value the program will see: printed degrees x the compiler's factor
            d = round(math.degrees(val[name]), 4)
            val[name] = d * 0.017453292519943295
            return f"({d!r} deg)"
        return num(val[name])
    used = {n: k(n) for n in "abcm" if "{" + n + "}" in tmpl}
    if "{r}" in tmpl:
        consts.append(f"KR{i} = Range({num(b)}, {num(b + 0.001)})")
    expr = tmpl.format(Q=Q.format(x=target), **{**dict(a="", b="", c="", m="", r=f"KR{i}"), **used})
    kind = t.weighted([8, 2, 1, 1, 1], tag + "kind")
    vals = tuple(val[n] for n in "abcm")
    return types.SimpleNamespace(text=KINDS[kind].format(e=expr, i=i), hard=kind in (0, 4), kind=KINDS[kind].split(" {")[0], quantity=quantity,
                                 target=target, form=tmpl, pred=(None if pred is None else (lambda q, p=pred, v=vals: p(q, *v))))


# -- objects ---------------------------------------------------------------------------------
def new_obj(name, **kw):
    o = types.SimpleNamespace(name=name, spec=[], base=None, cont=None, on=False, base_offset=None, ct=1e-4, visible_from=None,
                              require_visible=False, field=None, cont_flat=False)
    o.__dict__.update(kw)
    return o


def sizes(t, tag, o, base=1.0, p=3, flat=0):
    """Sizes; flat = k: one time in k the height is well below (or above) width and length, so that the planar
    inradius min(w, l)/2 and the 3D inradius differ."""
    for prop in ("width", "length", "height"):
        if prop == "height" and flat and (f := t.draw(8 * flat, tag + "flat")) >= 8 * flat - 8:
            o.spec.append(f"with height {dim(t, tag + 'height.', base * (0.25 if f % 8 else 2.5))}")
        elif prop == "length" and flat == 1 and t.draw(2, tag + "compact"):
            o.spec.append(f"with length {dim(t, tag + 'length.', base * 0.6)}")  # a compact footprint once it lies on its side
        elif t.draw(p, tag + prop):
            o.spec.append(f"with {prop} {dim(t, tag + prop + '.', base)}")


def facing(t, tag, o, tilt=True):
    """Orientation: yaw ranges, and (tilt) pitch / roll as non-zero constants, ranges containing 0, or Options with 0."""
    k = t.weighted([3, 3, 2, 2 if tilt else 0, 4 if tilt else 0], tag + "facing")
    lo = ANG[t.draw(5, tag + 'f0')] - 0.5
    r = f"Range({num(lo)}, {num(lo + 0.5 + t.draw(4, tag + 'f1'))})"
    if k == 4:  # pitch exactly 0 and a roll: a flat box on its side is thinner than its planar inradius
        roll = ["90 deg", "-90 deg", "Uniform(0, 90 deg)", "Range(1.2, 1.6)", "Range(0, 1.6)", "0.7", "90 deg"][t.draw(7, tag + "roll")]
        # (`facing (yaw, 0, roll)` makes the pitch a derived random value; only `with roll` leaves it the constant 0)
        o.spec.append([f"with roll {roll}", f"with yaw {r}, with roll {roll}", f"facing ({r}, 0, {roll})"][t.weighted([3, 3, 1], tag + "rollform")])
    elif k == 3:
        pitch = [num(0.1 + 0.2 * t.draw(3, tag + "pitch")), "Range(0, 0.5)", "Uniform(0, 0.4)"][t.weighted([3, 1, 1], tag + "pitchform")]
        o.spec.append(f"facing ({r}, {pitch}, 0)")
    elif k:
        o.spec.append([None, f"facing {r}", f"with yaw {r}"][k])


def place(t, tag, o, region_name, ref, flat):
    """`in R` or (2D regions only) `on R`, optionally with a horizontal baseOffset."""
    o.base = ref
    if flat and t.draw(3, tag + "on") == 2:
        o.on = True
        o.spec.insert(0, f"on {region_name}")
        if t.draw(2, tag + "bo"):
            o.base_offset = (0.3 * zig(t.draw(7, tag + "box")), 0.3 * zig(t.draw(5, tag + "boy")), -0.25 * t.draw(4, tag + "boz"))
            o.spec.append("with baseOffset (%s, %s, %s)" % tuple(num(x) for x in o.base_offset))
        if t.draw(3, tag + "ct") == 2:
            o.ct = 0.0
            o.spec.append("with contactTolerance 0")
    else:
        o.spec.insert(0, f"in {region_name}")


def gen(t):
    fam = t.weighted([3, 2, 4, 3], "family")
    P = types.SimpleNamespace(family=["contain2d", "contain3d", "heading", "visibility"][fam], mode2D=False, reqs=[], objs=[], cells=None, fields={})
    lines, consts = [], []
    nobj = (2 + t.draw(2, "nobj")) if fam == 2 else 1 + t.draw(3, "nobj")
    names = ["ego"] + [f"o{i}" for i in range(1, nobj)]
    collide = t.draw(4, "collisions") == 3

    if fam in (0, 1):
        S = 4.0 + 2 * t.draw(4, "S")
        zc = (1.5 if t.draw(16, "zc") == 15 else 0.0) if fam == 0 else S / 4
        ctxt, cref = region2d(t, "C.", (0.0, 0.0, zc), S) if fam == 0 else region3d(t, "C.", (0.0, 0.0, zc), S, S / 2)
        as_ws = t.draw(3, "as-workspace") != 2
        lines.append(f"cont = {ctxt}")
        if as_ws:
            lines.append("workspace = Workspace(cont)")
        for i, nm in enumerate(names):
            o = new_obj(nm, cont=cref, cont_flat=fam == 0)
            facing(t, f"o{i}.", o)  # (a rolled object usually gets a height unlike its width: thinner or thicker than its planar inradius)
            sizes(t, f"o{i}.", o, base=S / (6 if fam == 0 else 8), flat=0 if fam else 1 if any("with roll" in x for x in o.spec) else 3)
            if t.draw(3, f"o{i}.own-base"):  # a base region different from the container
                c = (0.3 * S * zig(t.draw(5, f"o{i}.bx")), 0.3 * S * zig(t.draw(3, f"o{i}.by")), zc if fam or t.draw(16, f"o{i}.bz") < 15 else 1.0 - zc / 1.5)
                btxt, bref = (region2d(t, f"B{i}.", c, S * (0.75 + 0.25 * t.draw(4, f"o{i}.bs"))) if fam == 0
                              else region3d(t, f"B{i}.", c, S * (0.75 + 0.25 * t.draw(4, f"o{i}.bs")), S / 2 * (1 + t.draw(2, f"o{i}.bh"))))
                lines.append(f"base{i} = {btxt}")
                place(t, f"o{i}.", o, f"base{i}", bref, fam == 0)
            else:
                place(t, f"o{i}.", o, "workspace" if as_ws else "cont", cref, fam == 0)
            if not as_ws:
                o.spec.append("with regionContainedIn cont")
            P.objs.append(o)

    elif fam == 2:
        P.mode2D = t.draw(4, "mode2D") == 3
        n, gap = 2 + t.draw(3, "ncells"), [10.0, 0.0, 4.0][t.draw(3, "gap")]
        hs = [[0.0, math.pi / 2, math.pi, -math.pi / 2, math.pi / 4, 0.5][t.draw(6, f"cellh{k}")] if k else 0.0 for k in range(n)]
        P.cells = [([(k * (10 + gap), 0.0), (k * (10 + gap) + 10, 0.0), (k * (10 + gap) + 10, 10.0), (k * (10 + gap), 10.0)], hs[k]) for k in range(n)]
        for k, (ring, h) in enumerate(P.cells):
            lines.append(f"r{k} = PolygonalRegion({[tuple(p) for p in ring]!r})")
        lines.append('vf = PolygonalVectorField("F", [%s])' % ", ".join(f"[r{k}.polygons, {num(h)}]" for k, (_, h) in enumerate(P.cells)))
        lines.append("union = r0" + "".join(f".union(r{k})" for k in range(1, n)))
        oriented = t.draw(3, "oriented-region") == 2
        if oriented:
            lines.append("union = PolygonalRegion(polygon=union.polygons, orientation=vf)")
        P.fields = {"vf": hs}
        if t.draw(2, "second-field"):  # other objects may follow another field over the same cells (no cell pairs with itself then)
            P.fields["vg"] = [[math.pi / 2, 0.0, -math.pi / 4, 2.5, 3.0, -3.0][t.draw(6, f"cellg{k}")] for k in range(n)]
            lines.append('vg = PolygonalVectorField("G", [%s])' % ", ".join(f"[r{k}.polygons, {num(h)}]" for k, h in enumerate(P.fields["vg"])))
        bref = rr.PolyRef([np.array(r, float) for r, _ in P.cells], (0.0, 0.0, 0.0), kind="polygon", desc={"cells": n, "gap": gap})
        for i, nm in enumerate(names):
            o = new_obj(nm, base=bref, spec=["in union"])
            k = t.weighted([10, 1, 1], f"o{i}.align")
            if k == 0:
                f = "vg" if i and "vg" in P.fields and not oriented and t.draw(3, f"o{i}.vg") else "vf"
                o.field = P.fields[f]
                if not oriented:  # (in an oriented region the heading already follows vf; `facing vf` on top of it is not matched)
                    o.spec.append(f"facing {f}")
                elif t.draw(8, f"o{i}.facing-too") == 7:
                    o.spec.append("facing vf")
            elif k == 1:
                o.spec.append(f"facing Range(-0.2, {num(0.1 + 0.1 * t.draw(3, f'o{i}.r'))}) relative to vf")
            else:
                lo = ANG[t.draw(5, f"o{i}.f0")] - 0.5
                o.spec.append(f"facing Range({num(lo)}, {num(lo + 1.0 + t.draw(3, f'o{i}.f0b'))})")
            if i and (v := t.weighted([2, 1, 3], f"o{i}.vis")):
                src = names[t.draw(i, f"o{i}.from")]  # observed from the ego or from an earlier object
                o.spec.append(["with requireVisible True", f"visible from {src}"][v - 1])
                o.require_visible, o.visible_from = v == 1, (src if v == 2 else None)
            if i and (vd := t.draw(5, f"o{i}.vd")) >= 2:  # the observed object's own view distance differs from the observer's
                o.spec.append(f"with visibleDistance {num([6, 12, 25][vd - 2])}")
            P.objs.append(o)
        if t.draw(2, "ego-vd"):
            P.objs[0].spec.append(f"with visibleDistance {num([15, 30, 6][t.draw(3, 'ego-vdv')])}")

    else:
        flat = t.draw(3, "3d-workspace") != 2
        W = 6.0 + 3 * t.draw(3, "W")
        quiet = "" if t.draw(4, "occluding") == 3 else "with occluding False"  # occlusion is not what pruning reasons about (and costly)
        wtxt, wref = region2d(t, "W.", (0.0, 0.0, 0.0), W, kinds=("rect", "poly")) if flat else region3d(t, "W.", (0.0, 0.0, 3.0), W, 6.0)
        lines.append(f"wreg = {wtxt}")
        if flat:
            lines.append("workspace = Workspace(wreg)")
        ego = new_obj("ego")
        cyclic = nobj > 1 and t.draw(6, "cyclic") == 5  # the ego is observed by an object that must itself be visible from it
        if cyclic:
            ego.spec, ego.base, ego.visible_from = ["in workspace" if flat else "in wreg", "visible from o1"], wref, "o1"
        elif t.draw(3, "ego-random") == 2:
            etxt, ego.base = region2d(t, "E.", (0.0, 0.0, 0.0), 3.0, kinds=("rect",))
            lines.append(f"ereg = {etxt}")
            ego.spec.append("in ereg")
        else:
            c = (0.12 * W * zig(t.draw(5, "ego-x")), 0.12 * W * zig(t.draw(3, "ego-y")), 0.0 if flat else 3.0)
            ego.spec.append(f"at {vec(c)}")
        if t.draw(4, "diamond") == 3:  # the observer's heading is a heavily shared random expression: 2**k paths through ~2k nodes
            lines += ["hx = Range(-1, 1)", f"for _k in range({16 + 2 * t.draw(3, 'diamond-depth')}):", "    hx = (hx + hx) / 2"]
            ego.spec.append("facing hx")
        else:
            facing(t, "ego.", ego, tilt=False)
        ego.spec.append(f"with visibleDistance {num([5, 3, 8, 0.6, 1.5][t.weighted([4, 4, 2, 1, 2], 'vd')])}")
        va = t.draw(4, "view")
        if va:
            ego.spec.append([None, "with viewAngle 90 deg", "with viewAngles (140 deg, 60 deg)", "with viewAngle 30 deg"][va])
        if t.draw(4, "camera") == 3:
            ego.spec.append("with cameraOffset (0.5, 0, 0)")
        P.objs.append(ego)
        for i, nm in enumerate(names[1:], 1):
            o = new_obj(nm)
            sizes(t, f"o{i}.", o, p=2)  # boxes only: ray casting against an icosphere costs ~0.2 s per visibility check
            place(t, f"o{i}.", o, "workspace" if flat else "wreg", wref, flat)
            v = 1 if cyclic and i == 1 else t.weighted([1, 4, 2, 2, 1, 1], f"o{i}.vis")
            src = names[t.draw(i, f"o{i}.from")]
            o.spec.append([None, "with requireVisible True", "visible", f"visible from {src}", "not visible", f"not visible from {src}"][v] or "with foo 1")
            o.require_visible, o.visible_from = v == 1, {2: "ego", 3: src}.get(v)
            P.objs.append(o)
        collide = False
        for o in P.objs:
            o.spec += [quiet] if quiet else []
        if cyclic:  # o1 must exist before the ego refers to it
            P.objs[0], P.objs[1] = P.objs[1], P.objs[0]

    for i, o in enumerate(P.objs):  # (1 ray per degree instead of 5: a visibility check costs 10 ms instead of 200 ms)
        o.spec += [f"with cid {i}"] + ([] if collide else ["with allowCollisions True"]) + (["with viewRayDensity 1"] if fam >= 2 else [])
        lines.append(f"{o.name} = new Object " + ", ".join(o.spec))
    if fam == 2:  # a relative-heading bound, something that bounds the distance (a statement unless o1 must be visible), then anything
        allh = [h for f in P.fields.values() for h in f]
        diffs = sorted({round(norm_angle(h2 - h1), 6) for h1 in allh for h2 in allh}, key=lambda d: (abs(d), d))
        bounded = P.objs[1].require_visible or P.objs[1].visible_from
        # (when a visibility relation already bounds the distance to o1, a distance statement about o1 is the exception,
        # so that the bound from the observer's view distance is the one that decides)
        for i in range(max(1 + t.weighted([3, 2, 1] if bounded else [2, 3, 1], "nreq"), 1 if bounded else 2)):
            q = "rh" if i == 0 or (i > 1 and t.draw(3, f"q{i}.quantity") == 2) else "dist"
            tgt = names[1 if i == 0 or (i == 1 and (not bounded or nobj == 2)) else 1 + t.draw(nobj - 1, f"q{i}.target") if not bounded else nobj - 1]
            P.reqs.append(requirement(t, f"q{i}.", i, q, tgt, consts, 24.0, diffs))
    elif nobj > 1 and t.draw(2, "nreq"):
        P.reqs.append(requirement(t, "q0.", 0, "dist", names[1 + t.draw(nobj - 1, "q0.target")], consts, S if fam < 2 else W))
    P.text = HEADER + "\n".join(consts + lines + [r.text for r in P.reqs]) + "\n"
    return P
