"""Decision tape: one integer decides everything.

A run draws every choice from a Tape.  A fresh tape is driven by a private
``random.Random(seed)`` (never the module-level generator, which is a seam);
a replay tape returns recorded values in order (reduced mod n) and zeros after
the recording ends.  Generators are written so that 0 is always "simplest",
which makes deleting and zeroing entries effective for minimisation.

Logging never draws and never reads a clock.
"""

import hashlib
import random as _random


def derive_seed(*parts):
    """64-bit seed from arbitrary parts; independent of worker count/scheduling."""
    h = hashlib.blake2b(digest_size=8)
    for p in parts:
        h.update(repr(p).encode())
        h.update(b"\0")
    return int.from_bytes(h.digest(), "big")


class Tape:
    def __init__(self, seed=None, prefix=None):
        self.seed = seed
        self.prefix = list(prefix) if prefix is not None else None
        self._rng = _random.Random(seed) if prefix is None else None
        self.pos = 0
        self.values = []  # recorded draw values
        self.labels = []  # (label, n) parallel to values, for decoding only

    # -- primitive -------------------------------------------------------
    def draw(self, n, label=""):
        """Integer in [0, n).  n <= 1 consumes nothing."""
        if n <= 1:
            return 0
        if self.prefix is not None:
            if self.pos < len(self.prefix):
                v = int(self.prefix[self.pos]) % n
            else:
                v = 0
        else:
            v = self._rng.randrange(n)
        self.pos += 1
        self.values.append(v)
        self.labels.append((label, n))
        return v

    # -- conveniences (all built on draw) --------------------------------
    def chance(self, num, den, label=""):
        """True with probability num/den; value 0 maps to False."""
        return self.draw(den, label) >= den - num

    def choice(self, seq, label=""):
        return seq[self.draw(len(seq), label)]

    def weighted(self, weights, label=""):
        """Index chosen with the given integer weights; index 0 first."""
        total = sum(weights)
        v = self.draw(total, label)
        acc = 0
        for i, w in enumerate(weights):
            acc += w
            if v < acc:
                return i
        return len(weights) - 1

    def intrange(self, lo, hi, label=""):
        """Integer in [lo, hi] inclusive; lo is simplest."""
        return lo + self.draw(hi - lo + 1, label)

    def bits(self, k, label=""):
        return [self.draw(2, f"{label}[{i}]") for i in range(k)]

    def permutation(self, n, label=""):
        """Lehmer-coded permutation of range(n); all zeros = identity."""
        items = list(range(n))
        out = []
        for i in range(n):
            out.append(items.pop(self.draw(len(items), f"{label}.{i}")))
        return out

    def fork(self, label=""):
        """Independent child tape (fresh mode only draws one 2^62 value)."""
        return Tape(seed=self.draw(1 << 62, label))


def shrink(values, still_fails, budget=400, seconds=None):
    """Minimise a decision list while ``still_fails(list)`` holds.

    Passes: delete blocks (8,4,2,1), zero entries, halve / decrement entries.
    Bounded by ``budget`` calls to still_fails (and optionally by wall time: the
    result is then still a failing list, only less minimal).
    Returns (minimised list, calls used).
    """
    import time as _time

    calls = 0
    best = list(values)
    deadline = None if seconds is None else _time.time() + seconds

    def attempt(cand):
        nonlocal calls, best, budget
        if deadline is not None and _time.time() > deadline:
            budget = calls  # stop all passes
        if calls >= budget:
            return False
        calls += 1
        if still_fails(cand):
            best = cand
            return True
        return False

    # strip trailing zeros (they are implied)
    def strip(v):
        v = list(v)
        while v and v[-1] == 0:
            v.pop()
        return v

    best = strip(best)
    improved = True
    while improved and calls < budget:
        improved = False
        # truncate tail
        n = len(best)
        cut = n // 2
        while cut >= 1 and calls < budget:
            if len(best) > cut and attempt(strip(best[: len(best) - cut])):
                improved = True
            else:
                cut //= 2
        # delete blocks
        for size in (8, 4, 2, 1):
            i = 0
            while i + size <= len(best) and calls < budget:
                cand = strip(best[:i] + best[i + size :])
                if attempt(cand):
                    improved = True
                else:
                    i += 1
        # zero entries
        for i in range(len(best)):
            if calls >= budget:
                break
            if i < len(best) and best[i] != 0:
                cand = list(best)
                cand[i] = 0
                if attempt(strip(cand)):
                    improved = True
        # reduce entries
        for i in range(len(best)):
            if calls >= budget:
                break
            while i < len(best) and best[i] > 1 and calls < budget:
                cand = list(best)
                cand[i] = best[i] // 2
                if attempt(strip(cand)):
                    improved = True
                    continue
                cand = list(best)
                cand[i] = best[i] - 1
                if attempt(strip(cand)):
                    improved = True
                    continue
                break
    return best, calls
