"""Seams as a library: RNG back ends (seeded / branching / scripted), simulated clock.

All seams are module attributes looked up at call time by Scenic
(``random.<f>(...)`` after ``import random``; ``scenic.core.sample_checking.time``),
so nothing in /repo is patched.  Every context manager restores what it replaced.
"""

import bisect
import contextlib
import math
import random as _random
import statistics
from fractions import Fraction

_RANDOM_FUNCS = (
    "random", "uniform", "randint", "randrange", "choice", "choices", "gauss",
    "triangular", "getstate", "setstate", "shuffle", "sample", "seed", "normalvariate",
)


@contextlib.contextmanager
def patched_random(impl):
    """Replace the module-level functions of ``random`` by methods of ``impl``."""
    saved = {name: getattr(_random, name) for name in _RANDOM_FUNCS}
    try:
        for name in _RANDOM_FUNCS:
            if hasattr(impl, name):
                setattr(_random, name, getattr(impl, name))
            else:
                setattr(_random, name, _forbidden(name))
        yield impl
    finally:
        for name, f in saved.items():
            setattr(_random, name, f)


def _forbidden(name):
    def f(*a, **k):
        raise RuntimeError(f"random.{name} is not served by this RNG seam")

    return f


# ---------------------------------------------------------------------------
# seeded back end: private Mersenne Twister with an optional call log
# ---------------------------------------------------------------------------
class SeededRNG:
    def __init__(self, seed, log=False):
        self._r = _random.Random(seed)
        self.log = [] if log else None
        self.calls = 0

    def __getattr__(self, name):
        if name.startswith("_") or name not in _RANDOM_FUNCS:
            raise AttributeError(name)
        f = getattr(self._r, name)

        def wrapped(*a, **k):
            self.calls += 1
            res = f(*a, **k)
            if self.log is not None and name not in ("getstate", "setstate"):
                self.log.append((name, res if isinstance(res, (int, float)) else None))
            return res

        return wrapped


# ---------------------------------------------------------------------------
# branching back end: every call is a finite choice point with exact probabilities
# ---------------------------------------------------------------------------
class TreeTooLarge(Exception):
    pass


class TreeTooDeep(Exception):
    """A path of the choice tree is longer than the caller's bound on any legitimate execution."""


class BranchingRNG:
    """One execution under a forced prefix of choice indices.

    ``path`` records (index, probabilities) at every choice point; ``prob`` is the exact
    probability of the path.  Calls made between getstate() and setstate() (requirement
    checking) are served from a private side stream and never branch.
    """

    def __init__(self, prefix=(), strata=4, side_seed=12345, max_depth=None):
        self.prefix = list(prefix)
        self.strata = strata
        self.max_depth = max_depth
        self.path = []
        self.prob = Fraction(1)
        self.depth_check = 0
        self.side = _random.Random(side_seed)
        self.side_calls = 0
        self.nonexact = False

    # -- core --------------------------------------------------------------
    def _choose(self, probs):
        probs = [Fraction(p) for p in probs]
        k = len(self.path)
        if self.max_depth is not None and k >= self.max_depth:
            raise TreeTooDeep(k)
        if k < len(self.prefix):
            i = self.prefix[k]
        else:
            i = next(j for j, p in enumerate(probs) if p > 0)
        self.path.append((i, probs))
        self.prob *= probs[i]
        return i

    def _in_check(self):
        if self.depth_check > 0:
            self.side_calls += 1
            return True
        return False

    # -- random API ----------------------------------------------------------
    def random(self):
        if self._in_check():
            return self.side.random()
        n = self.strata
        i = self._choose([Fraction(1, n)] * n)
        return (i + 0.5) / n

    def uniform(self, a, b):
        if self._in_check():
            return self.side.uniform(a, b)
        n = self.strata
        i = self._choose([Fraction(1, n)] * n)
        return a + (b - a) * ((i + 0.5) / n)

    def randint(self, a, b):
        if self._in_check():
            return self.side.randint(a, b)
        if b < a:
            raise ValueError(f"empty range for randint({a}, {b})")
        n = b - a + 1
        return a + self._choose([Fraction(1, n)] * n)

    def randrange(self, start, stop=None, step=1):
        if self._in_check():
            return self.side.randrange(start, stop, step) if stop is not None else self.side.randrange(start)
        if stop is None:
            start, stop = 0, start
        vals = range(start, stop, step)
        if len(vals) == 0:
            raise ValueError("empty range for randrange()")
        return vals[self._choose([Fraction(1, len(vals))] * len(vals))]

    def choice(self, seq):
        if self._in_check():
            return self.side.choice(seq)
        if not len(seq):
            raise IndexError("Cannot choose from an empty sequence")
        return seq[self._choose([Fraction(1, len(seq))] * len(seq))]

    def choices(self, population, weights=None, *, cum_weights=None, k=1):
        if self._in_check():
            return self.side.choices(population, weights, cum_weights=cum_weights, k=k)
        n = len(population)
        if cum_weights is not None:
            cw = [Fraction(w) for w in cum_weights]
            ws = [cw[0]] + [cw[i] - cw[i - 1] for i in range(1, n)]
        elif weights is not None:
            ws = [Fraction(w) for w in weights]
        else:
            ws = [Fraction(1)] * n
        total = sum(ws)
        probs = [w / total for w in ws]
        return [population[self._choose(probs)] for _ in range(k)]

    def gauss(self, mu=0.0, sigma=1.0):
        self.nonexact = True
        self.side_calls += 1
        return self.side.gauss(mu, sigma)

    normalvariate = gauss

    def triangular(self, low=0.0, high=1.0, mode=None):
        self.nonexact = True
        self.side_calls += 1
        return self.side.triangular(low, high, mode)

    def getstate(self):
        self.depth_check += 1
        return ("branching-token", self.depth_check)

    def setstate(self, state):
        self.depth_check = max(0, self.depth_check - 1)

    def seed(self, *a, **k):
        pass

    # -- tree walking ------------------------------------------------------------
    def next_prefix(self):
        """Prefix of the next leaf in depth-first order, or None when the tree is closed."""
        path = self.path
        for k in range(len(path) - 1, -1, -1):
            i, probs = path[k]
            for j in range(i + 1, len(probs)):
                if probs[j] > 0:
                    return [p[0] for p in path[:k]] + [j]
        return None


def walk_tree(execute, strata=4, max_leaves=20000, max_depth=None):
    """Enumerate every RNG outcome of ``execute()`` (called under a BranchingRNG).

    Yields (outcome, probability, rng) per leaf.  ``execute`` must be deterministic given
    the RNG.  Raises TreeTooLarge beyond max_leaves (never a partial comparison)."""
    prefix = []
    leaves = 0
    while prefix is not None:
        rng = BranchingRNG(prefix, strata=strata, max_depth=max_depth)
        with patched_random(rng):
            outcome = execute()
        leaves += 1
        if leaves > max_leaves:
            raise TreeTooLarge(leaves)
        yield outcome, rng.prob, rng
        prefix = rng.next_prefix()


# ---------------------------------------------------------------------------
# scripted back end: a supplied sequence of u in [0,1) drives every function
# ---------------------------------------------------------------------------
class ScriptedRNG:
    """All functions are inverse-CDF transforms of a supplied sequence of uniforms
    (low-discrepancy, adversarial end points, ...).  After the script is exhausted a
    private seeded generator continues."""

    def __init__(self, script, seed=0):
        self.script = list(script)
        self.pos = 0
        self._r = _random.Random(seed)
        self._saved = []

    def _u(self):
        if self.pos < len(self.script):
            u = self.script[self.pos]
            self.pos += 1
            return u
        return self._r.random()

    def random(self):
        return self._u()

    def uniform(self, a, b):
        return a + (b - a) * self._u()

    def randrange(self, start, stop=None, step=1):
        if stop is None:
            start, stop = 0, start
        vals = range(start, stop, step)
        if len(vals) == 0:
            raise ValueError("empty range for randrange()")
        return vals[min(len(vals) - 1, int(self._u() * len(vals)))]

    def randint(self, a, b):
        return self.randrange(a, b + 1)

    def choice(self, seq):
        return seq[min(len(seq) - 1, int(self._u() * len(seq)))]

    def choices(self, population, weights=None, *, cum_weights=None, k=1):
        n = len(population)
        if cum_weights is None:
            if weights is None:
                return [self.choice(population) for _ in range(k)]
            cum_weights = []
            acc = 0.0
            for w in weights:
                acc += w
                cum_weights.append(acc)
        total = cum_weights[-1] + 0.0
        hi = n - 1
        return [population[bisect.bisect(cum_weights, self._u() * total, 0, hi)] for _ in range(k)]

    def triangular(self, low=0.0, high=1.0, mode=None):
        u = self._u()
        c = 0.5 if mode is None else (mode - low) / (high - low) if high != low else 0.5
        if u > c:
            u = 1.0 - u
            c = 1.0 - c
            low, high = high, low
        return low + (high - low) * math.sqrt(u * c)

    def gauss(self, mu=0.0, sigma=1.0):
        u = min(max(self._u(), 1e-12), 1 - 1e-12)
        return mu + sigma * statistics.NormalDist().inv_cdf(u)

    normalvariate = gauss

    def getstate(self):
        return (self.pos, self._r.getstate())

    def setstate(self, st):
        self.pos = st[0]
        self._r.setstate(st[1])

    def seed(self, *a, **k):
        pass


def halton(i, base):
    f, r = 1.0, 0.0
    while i > 0:
        f /= base
        r += f * (i % base)
        i //= base
    return r


# ---------------------------------------------------------------------------
# clock seam for the sampler's requirement scheduler
# ---------------------------------------------------------------------------
class SimClock:
    """Stand-in for the ``time`` module inside scenic.core.sample_checking.

    perf_counter() is called in pairs around every requirement evaluation; the second
    call of a pair advances simulated time by the next scripted cost, so the simulator
    -- not the hardware -- decides the order WeightedAcceptanceChecker chooses."""

    def __init__(self, cost_fn=None):
        self.now = 0.0
        self.calls = 0
        self.cost_fn = cost_fn or (lambda n: 1e-3)
        self.pairs = 0

    def perf_counter(self):
        self.calls += 1
        if self.calls % 2 == 0:
            self.now += float(self.cost_fn(self.pairs))
            self.pairs += 1
        return self.now

    def time(self):
        return self.now


@contextlib.contextmanager
def patched_clock(clock):
    import scenic.core.sample_checking as sc

    saved = sc.time
    sc.time = clock
    try:
        yield clock
    finally:
        sc.time = saved
