import sys

from simverif.engine import main, reexec_if_needed

reexec_if_needed()
sys.exit(main(sys.argv[1:]))
