"""C01 — scenes are drawn from exactly the program's conditional distribution.

Seam: the branching RNG back end.  Every call the sampler makes to `random.*` is a finite
choice point with an exact rational probability; the driver walks the whole choice tree of
`Scenario._generateInner(maxIterations=m)` (m = 1, 2, 3) by re-execution under forced
prefixes.  The requirement-timing clock is behind a seam as well (so the order of checks is
decided by the simulator, not the hardware).  Oracle: an independent exact enumerator of
the program's prior (simverif.fd) conditioned on the hard requirements and on each soft
requirement being enforced independently with its probability; all equalities are between
Fractions: P(scene), P(iterations = k, scene), P(rejection).
"""

import hashlib
import signal
import json
from fractions import Fraction

from .. import fd, seams

ID = "C01"
LEVEL = "exploration"
TECHNIQUE = "deterministic simulation: branching RNG seam closes the RNG choice tree of the rejection sampler; exact rational law vs independent enumerator"
BUDGET = {"quick": (3000, 45), "thorough": (300000, 1500)}
CHUNK = 6
MAX_LEAVES = 20000
RULE = (
    "one run = one finite-discrete Scenic program (<= 5 random variables from Uniform / weighted Options / "
    "DiscreteRange with random bounds / resample / lifted + - * // % / tuple-list-dict indexing / distribution "
    "function call / vector attribute / star-unpacking of a random tuple, names re-bound after a require, <= 3 hard "
    "or soft requirements with p in {1/4,1/2,3/4}, 0-2 objects on a grid, global parameters, 2D or 3D mode) compiled by "
    "the real front end; for maxIterations m in {1,2,3} the complete RNG choice tree of _generateInner is walked "
    "(trees above 20000 leaves are skipped and counted, never partially compared); distinct = digest of program "
    "text; non-trivial = rejection probability in (0,1) or >= 2 distinct scenes"
)
COMPONENTS = {
    "real": ["scenic parser/compiler", "requirement closures (PendingRequirement.compile)", "distributions (Options, "
             "DiscreteRange, operators, multiplexers, starred)", "Samplable.sampleAll", "Scenario._generateInner rejection loop",
             "WeightedAcceptanceChecker", "default requirements (collision, containment)"],
    "stub": ["RNG back end (branching: every random.* call is an exact finite choice point)",
             "clock of the requirement scheduler (SimClock)"],
}
ASSUMPTIONS = [
    "random.random() is stratified into 2 or 4 equiprobable mid-points so that `random() <= p` is true with probability exactly p for p in {1/4,1/2,3/4,1}",
    "calls made between random.getstate() and random.setstate() (requirement checking) are served from a side stream and never branch (probe: side_stream_calls)",
    "two unit-box objects in the same grid cell (offset 0.3) collide, in different cells (3 apart) they do not",
]


def prepare():
    import gc

    import scenic  # noqa: F401

    gc.collect()
    gc.freeze()


def scene_outcome(prog, scene, iterations):
    params = []
    for s in prog["stmts"]:
        if s[0] == "param":
            v = scene.params[s[1]]
            params.append((s[1], int(v) if not isinstance(v, tuple) else tuple(v)))
    cells = []
    objs = [s for s in prog["stmts"] if s[0] == "object"]
    # (scene.objects lists the ego first, which need not be the first object created: the second
    # object of a program is recognised by its offset of 0.3 in y)
    placed = sorted(scene.objects, key=lambda o: float(o.position.y) > 0.15)
    for s, o in zip(objs, placed):
        x = float(o.position.x) - (0.3 if s[3] else 0.0)
        cells.append(int(round(x / 3)))
    return ("scene", iterations, tuple(params), tuple(cells))


HANG_SECONDS = 30


class GenerationHang(BaseException):  # not an Exception: nothing in the sampler may swallow it
    pass


def _hang(signum, frame):
    raise GenerationHang()


def impl_law(prog, scenario, m):
    from scenic.core.distributions import RejectionException

    law = {}
    side = 0
    nonexact = False
    leaves = 0
    clock = seams.SimClock(lambda n: 1e-3 * (1 + n % 3))

    def execute():
        # the rejection loop must end after at most m attempts: a wall-clock guard turns a
        # loop that never ends into an outcome instead of a killed worker
        signal.signal(signal.SIGALRM, _hang)
        signal.setitimer(signal.ITIMER_REAL, HANG_SECONDS, 5)
        try:
            scene, its = scenario._generateInner(m, 0, None)
        except RejectionException:
            return ("reject",)
        finally:
            signal.setitimer(signal.ITIMER_REAL, 0)
        return scene_outcome(prog, scene, its)

    with seams.patched_clock(clock):
        # one attempt makes at most one choice per node and per soft requirement: a longer
        # path means more than m attempts were made
        per_attempt = len(prog["nodes"]) * 3 + len(prog["stmts"]) + 8
        for out, p, rng in seams.walk_tree(execute, strata=prog["strata"], max_leaves=MAX_LEAVES,
                                           max_depth=(m + 1) * per_attempt):
            leaves += 1
            side += rng.side_calls
            nonexact = nonexact or rng.nonexact
            law[out] = law.get(out, Fraction(0)) + p
    return law, leaves, side, nonexact


def jkey(k):
    return json.dumps(k, default=str)


def run(tape):
    import scenic

    g = fd.FDGen(tape)
    prog = g.program()
    src = fd.render(prog)
    stats = {"programs": 1}
    violations = []
    digest = hashlib.blake2b(src.encode(), digest_size=8)
    nontrivial = False
    leaves_total = 0
    try:
        scenario = scenic.scenarioFromString(src, mode2D=prog["mode2D"])
    except Exception as e:  # noqa: BLE001 - every generated program is valid
        msg = f"{type(e).__name__}: {e}"
        if type(e).__name__ == "InvalidScenarioError" and fd.reference_law(prog, 1) == {("reject",): Fraction(1)}:
            # objects at fixed positions are validated at compile time; the reference agrees
            # that no scene exists
            return {"violations": [], "digest": digest.hexdigest(), "nontrivial": False,
                    "stats": {"programs": 1, "statically_infeasible_agreed": 1},
                    "sample": {"program": src, "error": msg[:200]}}
        return {"violations": [{"clause": "compile-error", "detail": {"error": msg[:300], "program": src}}],
                "digest": digest.hexdigest(), "nontrivial": False,
                "stats": {"programs": 1, "compile-error": 1}, "sample": {"program": src, "error": msg[:300]}}
    sample = {"program": src, "strata": prog["strata"]}
    for m in (1, 2, 3):
        try:
            ilaw, leaves, side, nonexact = impl_law(prog, scenario, m)
        except seams.TreeTooLarge:
            stats[f"skipped:tree_too_large:m{m}"] = 1
            break
        except seams.TreeTooDeep as e:
            violations.append({"clause": "more-attempts-than-maxIterations", "detail": {
                "m": m, "program": src,
                "what": f"one execution of _generateInner(maxIterations={m}) made {e.args[0]} random choices, more than "
                        f"{m} attempts of this program can make"}})
            break
        except GenerationHang:
            violations.append({"clause": "generation-does-not-terminate", "detail": {
                "m": m, "seconds": HANG_SECONDS, "program": src,
                "what": f"_generateInner(maxIterations={m}) still running after {HANG_SECONDS} s in one leaf of the choice tree"}})
            break
        leaves_total += leaves
        stats["leaves"] = stats.get("leaves", 0) + leaves
        stats["trees_closed"] = stats.get("trees_closed", 0) + 1
        stats["probe:side_stream_calls"] = stats.get("probe:side_stream_calls", 0) + side
        if nonexact:
            stats["skipped:nonexact"] = 1
            break
        rlaw = fd.reference_law(prog, m)
        total = sum(ilaw.values())
        if total != 1:
            violations.append({"clause": "probabilities-do-not-sum-to-one", "detail": {"m": m, "total": str(total)}})
        rej = ilaw.get(("reject",), Fraction(0))
        if m == 1:
            if 0 < rej < 1:
                nontrivial = True
                stats["probe:rejection_probability_strictly_between_0_and_1"] = 1
            if len(ilaw) >= 3:
                nontrivial = True
            if any(s[0] == "require" and s[1] for s in prog["stmts"]):
                stats["probe:has_soft_requirement"] = 1
            if any(n[0] == "resample" for n in prog["nodes"]):
                stats["probe:has_resample"] = 1
            if any(s[0] == "object" for s in prog["stmts"]):
                stats["probe:has_objects"] = 1
            lets = [s[1] for s in prog["stmts"] if s[0] == "let"]
            if len(lets) != len(set(lets)):
                stats["probe:name_rebound"] = 1
            sample["law_m1"] = sorted((str(p), jkey(k)) for k, p in ilaw.items())[:10]
        digest.update(json.dumps(sorted((jkey(k), str(v)) for k, v in ilaw.items())).encode())
        if ilaw != rlaw:
            keys = sorted(set(ilaw) | set(rlaw), key=jkey)
            diff = [(jkey(k), str(ilaw.get(k, 0)), str(rlaw.get(k, 0))) for k in keys if ilaw.get(k) != rlaw.get(k)]
            clause = "rejection-probability" if ilaw.get(("reject",)) != rlaw.get(("reject",)) and m == 1 else (
                "scene-law" if m == 1 else "iteration-count-law")
            violations.append({"clause": clause, "detail": {
                "m": m, "differences(outcome, impl, reference)": diff[:8], "program": src}})
            break
    return {
        "violations": violations,
        "digest": digest.hexdigest(),
        "key": hashlib.blake2b(src.encode(), digest_size=8).hexdigest(),
        "nontrivial": nontrivial,
        "stats": stats,
        "sample": sample,
        "steps": leaves_total,
        "simsec": 0.0,
    }
