"""C08 -- pruning never changes which scenes can be generated.

Technique, stated plainly: deterministic simulation's "randomise every tuning knob; correctness must not
depend on one configuration", applied to the rejection sampler.  Compile-time pruning is an optimisation
switch (scenic.syntax.translator.usePruning) on the sampler; every random number comes through the RNG
seam (SeededRNG behind random.*, numpy.random seeded from the tape).  The deciding comparison is
DIFFERENTIAL across the knob: the knob-off compile of the same program text is the reference for the
knob-on compile.  There is no fault dimension.

One run = one generated program (simverif.prunegen), compiled twice in this process, N scenes from each:
  1 every position accepted knob-off lies in the knob-on pruned sampling region (obj.position._conditioned)
  2 every knob-on scene passes plain-Python predicates (original region, container, user requirements,
    visibility range, field alignment) -- each predicate is used only if all knob-off scenes pass it
  3 only position nodes are conditioned; all other property values have the same structure
  4 the knob-on compile does not fail when the knob-off scenario produced a scene
  5 termination by a deterministic counter on the erosion / dilation / voxelisation helpers (never wall time)
"""

import contextlib
import hashlib
import json
import math
import traceback

import numpy as np

from .. import prunegen
from .. import regionref as rr
from ..seams import SeededRNG, patched_random

ID, LEVEL, CHUNK = "C08", "exploration", 2
TECHNIQUE = ("deterministic simulation of the sampler with the pruning knob randomised: knob-off compile is the "
             "reference for the knob-on compile (differential, RNG seam)")
BUDGET = {"quick": (2000, 55), "thorough": (200000, 1200)}
RULE = (
    "one run = one Scenic program drawn from the tape (families: 2D containment, 3D containment in box / extruded-mesh volumes, "
    "polygonal vector field + relative-heading / distance requirements in every form relations.py matches, visibility from a "
    "limited observer; 1-3 objects `in`/`on` regions with baseOffset, Range sizes and orientations, workspace or regionContainedIn, "
    "hard / soft / terminate-when / record statements), compiled with usePruning False and True and sampled N times each under "
    "seeded RNG; distinct = digest of the program text; non-trivial = the knob-on compile conditioned at least one position to "
    "a different region")
COMPONENTS = {
    "real": ["scenic parser/compiler", "scenic.core.pruning (containment, relative heading, visibility)", "scenic.syntax.relations",
             "supportInterval of distributions", "region intersection / buffer / voxel erosion+dilation (shapely, trimesh, scipy.ndimage)",
             "Scenario.generate rejection sampler + requirement checking"],
    "stub": ["RNG back end"]}
ASSUMPTIONS = [
    "membership in a pruned polygon is judged by an own even-odd test over the library's vertex list (margin 1e-6 x size); in a pruned "
    "mesh by the library's distanceTo with half the coarsest voxel pitch used during that compile as margin (smaller excesses are counted unjudged)",
    "clause 2 predicates are necessary conditions (vertices of the bounding box inside the container, camera distance <= visibleDistance "
    "+ radius) and are only applied when every knob-off scene satisfies them: the knob-off scenario is the reference",
    "a RejectionException after the iteration budget ends the batch; programs whose knob-off compile fails or yields no scene are unjudged",
    "clause 5 bounds: 10^4 helper calls per compile, 8 calls of one helper with identical arguments on one region",
    "the support of scenes is compared, not their density (uniformity inside a region is C03)",
]
SHRINK_SECONDS = 60
TIER = "quick"
# scenes per side, rejection iterations per side (visibility checks cast rays: ~50 ms per iteration)
NSCENE = {"quick": {"contain2d": (60, 500), "heading": (60, 500), "contain3d": (40, 250), "visibility": (25, 120)},
          "thorough": {"contain2d": (400, 4000), "heading": (400, 4000), "contain3d": (200, 1500), "visibility": (100, 600)}}
FINDINGS = {  # stable keys; attributed only by the matchers in `attribute`
    "z": "pruned-polygon-loses-z", "soft": "non-hard-requirement-used-for-pruning", "loop": "containment-erosion-retry-loop",
    "offset": "containment-intersects-base-although-offset-exceeds-inradius", "wrap": "relative-heading-range-not-normalised",
    "clip": "voxel-dilation-clipped-to-grid", "gon": "pruned-circle-is-inscribed-polygon",
    "touch": "rh-pruning-asserts-on-non-polygon-cell-intersection",
    "cansee": "cansee-point-rotated-before-translated",
}


WALK_BOUND = 10 ** 4  # nodes the dependency-cycle check may visit per compile (unchanged tree: at most 160 over 600 programs)


class HelperExplosion(Exception):
    pass


def set_tier(tier):
    global TIER
    TIER = tier


def prepare():
    import gc

    import scenic
    import scenic.core.pruning  # noqa: F401
    import scipy.ndimage  # noqa: F401
    scenic.scenarioFromString("ego = new Object in RectangularRegion(0@0, 0, 3, 3), with requireVisible True\n")
    gc.collect()
    gc.freeze()


def classify(v):
    return v.get("detail", {}).get("finding")


# -- the knob and the probes around one compile -------------------------------------------------
@contextlib.contextmanager
def probes(probe):
    """Count helper calls (clause 5) and record which pruner conditioned which object (stats)."""
    import scenic.core.pruning as P
    import scenic.core.regions as R
    saved = []
    seen = {}

    def wrap(cls, name):
        orig = cls.__dict__[name]

        def w(self, *a, **k):
            probe["calls"] = probe.get("calls", 0) + 1
            key = (name, id(self), repr(a))
            seen[key] = seen.get(key, 0) + 1
            if name == "voxelized" and isinstance(a[0], (int, float)):
                probe["pitch"] = max(probe.get("pitch", 0.0), float(a[0]))
            if probe["calls"] > 10 ** 4 or seen[key] > 8:
                probe["explosion"] = {"helper": f"{cls.__name__}.{name}", "args": repr(a)[:200], "identical_calls": seen[key], "total_calls": probe["calls"]}
                raise HelperExplosion(name)
            res = orig(self, *a, **k)
            if name == "dilation" and isinstance(a[0] if a else k.get("iterations"), int) and (a[0] if a else k["iterations"]) > 0 \
                    and isinstance(res, R.VoxelRegion) and np.allclose(res.AABB, self.AABB):
                probe.setdefault("clipped", []).append([[float(x) for x in c] for c in self.AABB])  # dilated, yet no larger than the grid
            return res
        saved.append((cls, name, orig))
        setattr(cls, name, w)

    def stage(name):
        orig = getattr(P, name)

        def w(scenario, verbosity):
            before = [getattr(o.position, "_conditioned", None) for o in scenario.objects]
            try:
                return orig(scenario, verbosity)
            finally:
                for o, b in zip(scenario.objects, before):
                    if getattr(o.position, "_conditioned", None) is not b:
                        probe.setdefault("stages", {}).setdefault(name, []).append(getattr(o, "cid", -1))
        saved.append((P, name, orig))
        setattr(P, name, w)

    try:
        for cls, name in [(R.MeshVolumeRegion, "_erodeOverapproximate"), (R.MeshVolumeRegion, "_bufferOverapproximate"),
                          (R.MeshVolumeRegion, "voxelized"), (R.VoxelRegion, "dilation")]:
            wrap(cls, name)
        for cls in {c for c in vars(R).values() if isinstance(c, type) and "buffer" in vars(c)}:
            wrap(cls, "buffer")
        for name in ("pruneContainment", "pruneRelativeHeading", "pruneVisibility"):
            stage(name)
        deps_of = P.conditionedDeps

        def walk(samp):  # one call per node the dependency-cycle check of visibility pruning visits
            probe["walk"] = probe.get("walk", 0) + 1
            if probe["walk"] > WALK_BOUND:
                probe["explosion"] = {"helper": "pruning.conditionedDeps (checkConditionedCycle)", "total_calls": probe["walk"], "bound": WALK_BOUND,
                                      "args": "", "identical_calls": 0}
                raise HelperExplosion("conditionedDeps")
            return deps_of(samp)
        saved.append((P, "conditionedDeps", deps_of))
        P.conditionedDeps = walk
        yield
    finally:
        for owner, name, orig in reversed(saved):
            setattr(owner, name, orig)


def compile_prog(P, on, seed, probe):
    """Knob on: the tree as it is.  Knob off: translator.usePruning False AND the relation extraction that only feeds pruning
    (scenic.syntax.relations.inferRelationsFrom, called while requirements are compiled whatever usePruning says) switched off,
    so that an error raised by the extraction is an effect of the knob too."""
    import scenic
    import scenic.syntax.relations as rel
    import scenic.syntax.translator as tr
    old, infer = tr.usePruning, rel.inferRelationsFrom
    tr.usePruning = on
    if not on:
        rel.inferRelationsFrom = lambda *a, **k: None
    np.random.seed(seed % (1 << 32))
    try:
        with patched_random(SeededRNG(seed)), probes(probe):
            return scenic.scenarioFromString(P.text, mode2D=P.mode2D)
    finally:
        tr.usePruning, rel.inferRelationsFrom = old, infer


def generate(sc, n, cap, seed):
    """Up to n scenes within `cap` rejection iterations; also the raw sample of every accepted scene."""
    from scenic.core.distributions import RejectionException
    scenes, samples, its, orig = [], [], 0, sc._makeSceneFromSample

    def mk(sample):
        samples.append(sample)
        return orig(sample)
    sc._makeSceneFromSample = mk
    np.random.seed((seed + 1) % (1 << 32))
    try:
        with patched_random(SeededRNG(seed)):
            while len(scenes) < n and its < cap:
                try:
                    scene, k = sc.generate(maxIterations=cap - its, verbosity=0)
                except RejectionException:
                    its = cap
                    break
                its += k
                scenes.append(scene)
    finally:
        del sc._makeSceneFromSample
    return scenes, samples, its


# -- observations on sampled scenes (plain numbers) ------------------------------------------
def observe(scene):
    out = {}
    for o in scene.objects:
        out[int(o.cid)] = dict(pos=np.array([o.position.x, o.position.y, o.position.z], float), heading=float(o.heading),
                               R=np.array(o.orientation.r.as_matrix(), float), dims=np.array([o.width, o.length, o.height], float),
                               vd=float(o.visibleDistance), cam=np.array(list(o.cameraOffset), float), va=tuple(float(a) for a in o.viewAngles))
    return out


def centre_seen(e, p):
    """Is point p inside observer e's view cone?  (as visibility.canSee's point branch computes it, as documented).
    The point branch rotates the target into the viewer's frame and then subtracts the viewer's WORLD position."""
    cam, res = e["pos"] + e["R"] @ e["cam"], []
    if np.linalg.norm(p - cam) > e["vd"]:
        return False, False
    for v in (e["R"].T @ p - cam, e["R"].T @ (p - cam)):
        v = v / np.linalg.norm(v)
        az = (math.atan2(v[1], v[0]) - math.pi / 2 + math.pi) % math.tau - math.pi
        res.append(abs(az) <= e["va"][0] / 2 and abs(math.asin(max(-1.0, min(1.0, v[2])))) <= e["va"][1] / 2)
    return tuple(res)


def base_point(spec, ob):
    """The point that was drawn in the region: the position minus the `on` offset (own arithmetic)."""
    if not spec.on:
        return ob["pos"]
    bo = np.array(spec.base_offset if spec.base_offset is not None else (0.0, 0.0, -ob["dims"][2] / 2), float)
    return ob["pos"] - (np.array([0.0, 0.0, spec.ct / 2]) - bo)


def predicates(P, obs):
    """name -> (ok, numbers) for one scene; every predicate is a necessary condition of the program text."""
    out, byname = {}, {s.name: i for i, s in enumerate(P.objs)}
    for i, s in enumerate(P.objs):
        ob = obs[i]
        if s.base is not None:
            d = float(s.base.sd(base_point(s, ob)[None])[0])
            out[f"in-original-region[{i}]"] = (d <= s.base.tol + 1e-6, {"object": i, "base_point": base_point(s, ob).tolist(), "outside_by": d, "margin": s.base.tol + 1e-6})
        if s.cont is not None:
            sg = np.array([[a, b, c] for a in (-.5, .5) for b in (-.5, .5) for c in (-.5, .5)])
            W = ob["pos"] + (sg * ob["dims"]) @ ob["R"].T
            if s.cont_flat:
                W = np.column_stack([W[:, :2], np.full(len(W), s.cont.zs[0])])
            d = float(s.cont.sd(W).max())
            out[f"contained[{i}]"] = (d <= s.cont.tol + 1e-6, {"object": i, "position": ob["pos"].tolist(), "corner_outside_by": d, "margin": s.cont.tol + 1e-6})
        src = "ego" if s.require_visible else s.visible_from
        if src is not None and src in byname:
            e = obs[byname[src]]
            d = float(np.linalg.norm(ob["pos"] - (e["pos"] + e["R"] @ e["cam"])))
            lim = e["vd"] + float(np.linalg.norm(ob["dims"])) / 2
            out[f"within-view-distance[{i}]"] = (d <= lim + 1e-6, {"object": i, "observer": src, "distance": d, "visibleDistance_plus_radius": lim})
        if s.field and P.cells:
            hs = [h for (ring, _), h in zip(P.cells, s.field) if rr.poly_sd([np.array(ring)], ob["pos"][:1], ob["pos"][1:2])[0] < -1e-6]
            if len(hs) == 1:
                d = abs(prunegen.norm_angle(ob["heading"] - hs[0]))
                out[f"heading-follows-field[{i}]"] = (d <= 1e-6, {"object": i, "heading": ob["heading"], "cell_heading": hs[0]})
    e = obs[byname["ego"]]
    for k, r in enumerate(P.reqs):
        if r.hard and r.pred is not None:
            t = obs[byname[r.target]]
            q = prunegen.norm_angle(t["heading"] - e["heading"]) if r.quantity == "rh" else float(np.linalg.norm(t["pos"] - e["pos"]))
            out[f"requirement[{k}]"] = (bool(r.pred(q)), {"statement": r.text, "value": q})
    return out


# -- the pruned region of the knob-on scenario --------------------------------------------------
def point_node(pos):
    """The PointInRegionDistribution behind a position value (None if the position is not of that form)."""
    from scenic.core.regions import PointInRegionDistribution
    from scenic.core.type_support import TypecheckedDistribution
    from scenic.core.vectors import VectorOperatorDistribution
    if isinstance(pos, TypecheckedDistribution):
        pos = pos._dist
    if isinstance(pos, PointInRegionDistribution):
        return pos
    if isinstance(pos, VectorOperatorDistribution) and pos.operator in ("__add__", "__radd__") and isinstance(pos.object, PointInRegionDistribution):
        return pos.object
    return None


def region_of(node):
    reg = node.region
    return getattr(reg, "region", reg) if type(reg).__name__ == "Workspace" else reg


def concrete(reg, on, off, sample_off):
    """A random pruned region evaluated at the knob-off sample (all property values of all objects preset)."""
    from scenic.core.distributions import needsSampling
    from scenic.core.utils import DefaultIdentityDict
    if not needsSampling(reg):
        return reg
    subs = DefaultIdentityDict()
    for a in on.objects:
        b = next(o for o in off.objects if o.cid == a.cid)
        subs[a] = sample_off[b]
        for prop in b.properties:
            va, vb = getattr(a, prop), getattr(b, prop)
            if needsSampling(va):
                subs[va] = sample_off[vb]
    with patched_random(SeededRNG(0)):
        return reg.sample(subs)


def outside_by(reg, p, pitch):
    """(distance outside, margin, how) of point p w.r.t. a concrete region; None if it cannot be judged."""
    import scenic.core.regions as R
    from scenic.core.vectors import Vector
    if isinstance(reg, R.EmptyRegion):
        return math.inf, 0.0, "empty"
    if isinstance(reg, R.PolygonalRegion):
        rings = [np.array(r.coords)[:-1, :2] for g in reg.polygons.geoms for r in [g.exterior, *g.interiors]]
        ext = float(np.ptp(np.concatenate(rings), axis=0).max())
        d2 = max(float(rr.poly_sd(rings, p[:1], p[1:2])[0]), 0.0)
        return math.hypot(d2, p[2] - float(reg.z)), 1e-6 * max(1.0, ext), ("polygon-z" if d2 <= 1e-6 * max(1.0, ext) else "polygon")
    if isinstance(reg, R.MeshVolumeRegion):
        d = float(reg.distanceTo(Vector(*p)))
        return (0.0 if reg.containsPoint(Vector(*p)) else d), max(pitch, 1e-6 * max(1.0, float(max(reg.mesh.extents)))), "mesh"
    try:
        return (0.0 if reg.containsPoint(Vector(*p)) else float(reg.distanceTo(Vector(*p)))), max(pitch, 1e-5), type(reg).__name__
    except Exception:  # noqa: BLE001 - a region class without these operations
        return None


def measure(reg):
    from scenic.core.distributions import needsSampling
    try:
        return None if needsSampling(reg) else float(reg.size)
    except Exception:  # noqa: BLE001
        return None


# -- clause 3: structure of the non-positional properties ---------------------------------------
def struct(v, depth=0):
    from scenic.core.distributions import Samplable, needsSampling
    from scenic.core.object_types import Object
    if isinstance(v, Object):
        return f"Object#{getattr(v, 'cid', '?')}"
    if isinstance(v, Samplable) and needsSampling(v):
        ends = tuple(repr(vars(v)[a]) for a in ("low", "high", "operator", "attribute") if isinstance(vars(v).get(a), (int, float, str)))
        deps = tuple(struct(d, depth + 1) for d in v._dependencies) if depth < 5 else ("...",)
        return (type(v).__name__, ends, deps)
    if isinstance(v, (int, float, str, bool, type(None))):
        return repr(v)
    if isinstance(v, (tuple, list)):
        return tuple(struct(x, depth + 1) for x in v)
    return type(v).__name__


def conditioned_nodes(obj):
    """Property names of obj reaching a node (other than a position) that was conditioned to something else."""
    from scenic.core.distributions import Samplable
    from scenic.core.object_types import Object
    bad = []
    for prop in sorted(obj.properties):
        if prop == "position":
            continue
        stack, seen = [getattr(obj, prop)], set()
        while stack:
            v = stack.pop()
            if not isinstance(v, Samplable) or id(v) in seen or isinstance(v, Object):
                continue
            seen.add(id(v))
            if point_node(v) is not None:  # a position (possibly of another object): allowed to be conditioned
                continue
            if v._conditioned is not v:
                bad.append(prop)
                break
            stack.extend(v._dependencies)
    return bad


# -- matchers attributing a violation to a specific defect (call site + input predicate) ---------
def rh_causes(P, s, point):
    """Known defects of the relative-heading pruner whose input predicate holds for object s (drawn at `point`)."""
    keys = []
    if any(r.kind != "require" and r.quantity == "rh" and r.pred is not None for r in P.reqs):
        keys.append(FINDINGS["soft"])  # requirements.py compile(): relations are inferred whatever the statement kind / probability
    inside = [point is None or rr.poly_sd([np.array(ring)], np.array(point[:1]), np.array(point[1:2]))[0] <= 0 for ring, _ in P.cells]
    hs = [prunegen.norm_angle(h) for f in P.fields.values() for h in f]  # cell headings of every field
    here = [prunegen.norm_angle(h) for f in ([s.field] if s is not None and s.field else P.fields.values()) for h, k in zip(f, inside) if k]
    pairs = [p for h1 in here for h2 in hs for p in ([(h1, h2)] if s and s.name == "ego" else [(h2, h1)] if s else [(h1, h2), (h2, h1)])]
    if any(abs(ht - he) > math.pi and r.pred(prunegen.norm_angle(ht - he)) for he, ht in pairs for r in P.reqs
           if r.quantity == "rh" and r.pred is not None and (s is None or s.name in ("ego", r.target))):
        keys.append(FINDINGS["wrap"])  # relativeHeadingRange: the difference of two normalised headings is not normalised, so a
        # pair of cells (ego's, target's) whose true relative heading satisfies the bound is judged infeasible
    return "+".join(keys) or None


def circle_sliver(s, p, d, margin, how, resolution=32):
    """Bug model of 'pruned-circle-is-inscribed-polygon'.  A CircularRegion is sampled exactly (polar coordinates), but every
    polygon operation pruning applies to it uses its `polygons`, the regular 4*resolution-gon inscribed in the circle.  True iff
    p was drawn in the true disc of such a base, within the sagitta r(1-cos(pi/(4*resolution))) (+1e-6) of its arc, outside the
    inscribed polygon by d_gon > 0, and the pruned region excludes p by exactly d_gon (within the usual margin): the nearest
    admissible point is on the chord, so no other constraint of the pruned region is what excludes p."""
    b = s.base
    if not (how == "polygon" and isinstance(b, rr.DiscRef) and b.ang is None):
        return False
    step, rho = math.tau / (4 * resolution), math.hypot(p[0] - b.c[0], p[1] - b.c[1])
    rel = math.atan2(p[1] - b.c[1], p[0] - b.c[0]) % step - step / 2  # angle from the middle of the chord p is behind (a vertex is at angle 0)
    d_gon = rho * math.cos(rel) - b.r * math.cos(step / 2)
    return rho <= b.r + b.tol and b.r - rho <= b.r * (1 - math.cos(step / 2)) + 1e-6 and d_gon > 0 and abs(d - d_gon) <= margin + 1e-9


def attribute(P, clause, info, probe):
    stages, i = probe.get("stages", {}), info.get("object")
    s = P.objs[i] if i is not None else None
    flat = lambda r: isinstance(r, rr.Ref) and r.dim == 2 and not getattr(r, "hz", 0)  # noqa: E731
    if clause in ("feasible-position-pruned-away", "pruned-scene-outside-original-region") and s is not None:
        if flat(s.base) and (info.get("how") == "polygon-z" or info.get("z_only")) and s.base.zs[0] != 0:
            return FINDINGS["z"]  # regionFromShapelyObject: the result of PolygonalRegion.intersect has z = 0
    if clause == "pruning-reports-infeasible" and info.get("phase") == "compile":
        if info["where"][-1:] == ["feasibleRHPolygon"] and info["exception"].startswith(
                tuple("AssertionError: " + g for g in ("LINESTRING", "MULTILINESTRING", "POINT", "MULTIPOINT", "GEOMETRYCOLLECTION", "MULTIPOLYGON"))):
            return FINDINGS["touch"]  # feasibleRHPolygon asserts that a non-empty cell intersection is a single Polygon
        if "pruneRelativeHeading" in info["where"] and P.cells:
            return rh_causes(P, None, None)
    if clause == "feasible-position-pruned-away" and s is not None:
        if info.get("only_explained_by_inscribed_polygon_of_circle"):
            return FINDINGS["gon"]  # CircularRegion.polygons (buffer with quad_segs=resolution) stands for the exactly sampled disc
        if i in stages.get("pruneRelativeHeading", []) and info.get("how") == "polygon" and P.cells:
            return rh_causes(P, s, info["point"])
        box = [b for b in probe.get("clipped", []) if any(abs(info["point"][k] - (b[0][k] + b[1][k]) / 2) > (b[1][k] - b[0][k]) / 2 for k in range(2 if flat(s.base) else 3))]
        if i in stages.get("pruneVisibility", []) and info.get("centre_in_view_cone_as_computed_and_as_documented") == (True, False):
            return FINDINGS["cansee"]  # visibility.canSee, point branch: rotates the target, then subtracts the viewer's world position
        if i in stages.get("pruneVisibility", []) and box:
            return FINDINGS["clip"]  # VoxelRegion.dilation: the dense array is not padded, the result never leaves the grid's box
        p = np.array([[*info["point"][:2], s.cont.zs[0] if s.cont_flat else info["point"][2]]]) if s.cont is not None else None
        if s.on and s.base_offset is not None and i in stages.get("pruneContainment", []) and p is not None and float(s.cont.sd(p)[0]) > s.cont.tol:
            return FINDINGS["offset"]  # pruneContainment: with maxErosion <= 0 the base is still intersected with the (uneroded) container,
            # although the drawn point (position - offset) of a contained object may then lie outside the container itself
    if clause == "pruning-helper-call-explosion" and info.get("helper", "").endswith("_erodeOverapproximate") and info.get("identical_calls", 0) > 8:
        return FINDINGS["loop"]  # pruneContainment retries with PRUNING_PITCH instead of current_pitch
    return None


def run(tape):
    from scenic.core.distributions import Samplable
    P = prunegen.gen(tape)
    seed = tape.draw(1 << 30, "rng-seed")
    N, cap = NSCENE[TIER][P.family]
    stats, violations, steps = {"family:" + P.family: 1}, [], 0
    key = hashlib.blake2b(P.text.encode(), digest_size=8).hexdigest()
    dig = hashlib.blake2b(P.text.encode(), digest_size=8)
    sample = {"program": P.text[len(prunegen.HEADER):], "mode2D": P.mode2D, "seed": seed, "family": P.family}
    probe, nontrivial = {}, False

    def viol(clause, info):
        d = dict(program=P.text[len(prunegen.HEADER):], mode2D=P.mode2D, seed=seed, **info)
        d["finding"] = attribute(P, clause, info, probe)
        violations.append({"clause": clause, "detail": d})

    def done():
        for v in violations:
            dig.update((v["clause"] + str(v["detail"]["finding"])).encode())
        dig.update(json.dumps(sorted(stats.items())).encode())
        return {"violations": violations, "digest": dig.hexdigest(), "key": key, "nontrivial": nontrivial, "stats": stats,
                "sample": sample, "steps": steps, "simsec": 0.0}

    try:
        off = compile_prog(P, False, seed, {})
    except Exception as e:  # noqa: BLE001 - the generator wrote a program the front end refuses: nothing to compare
        stats[f"rejected-compile:{type(e).__name__}"] = stats["unjudged:knob-off-compile-failed"] = 1
        sample["knob_off_compile"] = f"{type(e).__name__}: {e}"[:300]
        return done()
    try:
        scenes_off, samples_off, its_off = generate(off, N, cap, seed)
    except Exception as e:  # noqa: BLE001 - the reference scenario itself cannot be sampled: nothing to compare
        stats[f"rejected-program:knob-off-generate-raised:{type(e).__name__}"] = stats["unjudged:knob-off-generate-failed"] = 1
        return done()
    obs_off = [observe(s) for s in scenes_off]
    steps += len(scenes_off)
    stats["scenes:knob-off"], stats["iterations:knob-off"] = len(scenes_off), its_off
    dig.update(repr([np.round(o["pos"], 9).tolist() for ob in obs_off for _, o in sorted(ob.items())]).encode())
    if not scenes_off:
        stats["unjudged:knob-off-produced-no-scene"] = stats["no-knob-off-scene:" + P.family] = 1

    # clauses 4 and 5: the knob-on compile
    on = None
    try:
        on = compile_prog(P, True, seed, probe)
    except HelperExplosion:
        viol("pruning-helper-call-explosion", dict(probe["explosion"], object=None))
    except Exception as e:  # noqa: BLE001
        stats[f"knob-on-compile-raised:{type(e).__name__}"] = 1
        if scenes_off:
            where = [f.name for f in traceback.extract_tb(e.__traceback__) if "/scenic/" in f.filename][-4:]
            viol("pruning-reports-infeasible", {"phase": "compile", "exception": f"{type(e).__name__}: {e}"[:300], "where": where, "object": None,
                                                "knob_off_scenes": len(scenes_off), "knob_off_iterations": its_off})
        else:
            stats["unjudged:knob-on-compile-failed-but-no-knob-off-scene"] = 1
    stats["helper-calls"], stats["cycle-check-nodes-visited"] =probe.get("calls", 0), probe.get("walk", 0)
    sample["helper_calls"], sample["pruned_by"] = probe.get("calls", 0), probe.get("stages", {})
    if on is None:
        return done()
    for name, objs in probe.get("stages", {}).items():
        stats[f"pruned-objects:{name}"] = len(objs)
        stats[f"programs-pruned:{name}"] = 1
    # margin for meshes built from voxels: half the coarsest voxel pitch of this compile.  The library erodes one layer less /
    # dilates one layer more than needed, so a sound result has about a pitch of slack; on the unmodified tree no accepted
    # position was ever outside a pruned mesh at all (700 programs), so half a pitch is far from the noise and a whole pitch
    # would hide an erosion that is one layer too deep
    pitch = probe.get("pitch", 0.0) / 2

    # clause 3: nothing but positions is touched
    byc_on, byc_off = {int(o.cid): o for o in on.objects}, {int(o.cid): o for o in off.objects}
    for i in sorted(byc_on):
        a, b = byc_on[i], byc_off[i]
        bad = [p for p in conditioned_nodes(a) if p not in conditioned_nodes(b)]
        diff = [p for p in sorted(b.properties) if p != "position" and struct(getattr(a, p)) != struct(getattr(b, p))]
        if bad or diff or sorted(a.properties) != sorted(b.properties):
            viol("non-positional-property-changed", {"object": i, "conditioned_properties": bad, "structure_differs": diff,
                                                     "knob_on": {p: repr(struct(getattr(a, p)))[:200] for p in diff[:3]},
                                                     "knob_off": {p: repr(struct(getattr(b, p)))[:200] for p in diff[:3]}})
    stats["objects-compared-structurally"] = len(byc_on)

    # clause 1: nothing feasible removed
    regions = {}
    for i, a in byc_on.items():
        pos = a.position
        if isinstance(pos, Samplable) and pos._conditioned is not pos:
            node, orig = point_node(pos._conditioned), point_node(byc_off[i].position)
            if node is None or orig is None:
                stats["unjudged:conditioned-position-of-unknown-form"] = 1
                continue
            regions[i] = (region_of(node), orig)
            m0, m1 = measure(region_of(orig)), measure(region_of(node))
            if m0 is None or m1 is None or m1 < m0 * (1 - 1e-9):
                nontrivial = True
    stats["objects-with-pruned-region"] = len(regions)
    stats["programs-with-pruned-region"] = int(bool(regions))
    sample["pruned_objects"] = sorted(regions)
    for i, (reg, orig) in sorted(regions.items()):
        random_region, worst, judged = None, None, 0
        for k, (smp, ob) in enumerate(zip(samples_off, obs_off)):
            p = smp[orig]
            p = np.array([p.x, p.y, p.z], float)
            try:
                creg = concrete(reg, on, off, smp)
            except Exception as e:  # noqa: BLE001 - the random region cannot be evaluated at this sample
                stats["unjudged:random-pruned-region-not-evaluable:" + type(e).__name__] = 1
                break
            random_region = creg is not reg
            if random_region and k >= 25:
                break
            res = outside_by(creg, p, pitch)
            if res is None:
                stats["unjudged:pruned-region-without-membership-test:" + type(creg).__name__] = 1
                break
            judged += 1
            d, margin, how = res
            gon = d > margin and circle_sliver(P.objs[i], p, d, margin, how)
            stats["positions-in-circle-slivers"] = stats.get("positions-in-circle-slivers", 0) + int(gon)
            # report the largest loss that the inscribed polygon of a circular base does not explain; such a sliver only if there is nothing else
            if d > margin and (worst is None or (gon, -d) < (worst["only_explained_by_inscribed_polygon_of_circle"], -worst["outside_by"])):
                worst = {"object": i, "scene_index": k, "point": p.tolist(), "position": ob[i]["pos"].tolist(), "outside_by": d, "margin": margin,
                         "how": how, "pruned_region": repr(creg)[:160], "region_depends_on_other_objects": random_region,
                         "pruned_measure": measure(creg), "original_measure": measure(region_of(orig)), "only_explained_by_inscribed_polygon_of_circle": gon}
                src = "ego" if P.objs[i].require_visible else P.objs[i].visible_from
                if src is not None:  # (as canSee's point branch computes it, as documented) for the object's centre
                    worst["centre_in_view_cone_as_computed_and_as_documented"] = centre_seen(ob[[o.name for o in P.objs].index(src)], ob[i]["pos"])
            elif d > 1e-6 * max(1.0, margin) and d <= margin and how not in ("polygon", "polygon-z"):
                stats["unjudged:outside-pruned-mesh-within-voxel-margin"] = stats.get("unjudged:outside-pruned-mesh-within-voxel-margin", 0) + 1
        stats["positions-checked-against-pruned-region"] = stats.get("positions-checked-against-pruned-region", 0) + judged
        if random_region:
            stats["pruned-regions-depending-on-other-objects"] = stats.get("pruned-regions-depending-on-other-objects", 0) + 1
        if worst:
            viol("feasible-position-pruned-away", worst)

    # clause 2: nothing new introduced (the knob-off scenes are the reference for every predicate)
    try:
        scenes_on, _, its_on = generate(on, N, cap, seed + 7)
    except Exception as e:  # noqa: BLE001 - sampling works without pruning and fails with it
        if scenes_off:
            viol("pruning-reports-infeasible", {"phase": "generate", "exception": f"{type(e).__name__}: {e}"[:300], "knob_off_scenes": len(scenes_off), "object": None})
        return done()
    obs_on = [observe(s) for s in scenes_on]
    steps += len(scenes_on)
    stats["scenes:knob-on"], stats["iterations:knob-on"] = len(scenes_on), its_on
    dig.update(repr([np.round(o["pos"], 9).tolist() for ob in obs_on for _, o in sorted(ob.items())]).encode())
    if scenes_off and not scenes_on:
        stats["unjudged:knob-on-produced-no-scene"] = 1
    ref = [predicates(P, ob) for ob in obs_off]
    usable = {n for n in (ref[0] if ref else {}) if all(n in r and r[n][0] for r in ref)}
    for n in {n for r in ref for n in r} - usable:
        stats["unjudged:predicate-fails-on-knob-off-scene:" + n.split("[")[0]] = 1
    reported = set()
    for k, ob in enumerate(obs_on):
        for n, (ok, info) in predicates(P, ob).items():
            if n in usable:
                stats["predicates-evaluated"] = stats.get("predicates-evaluated", 0) + 1
                if not ok and n not in reported:
                    reported.add(n)
                    clause = {"in-original-region": "pruned-scene-outside-original-region", "heading-follows-field": "non-positional-property-changed"}.get(n.split("[")[0], "pruned-scene-violates-requirement")
                    z_only = n.startswith("in-original") and float(P.objs[info["object"]].base.sd(np.array([[*info["base_point"][:2], P.objs[info["object"]].base.zs[0]]]))[0]) <= info["margin"]
                    viol(clause, dict(info, predicate=n, scene_index=k, knob_off_scenes_satisfying_it=len(ref), z_only=z_only))
    sample.update(scenes_off=len(scenes_off), scenes_on=len(scenes_on), iterations_off=its_off, iterations_on=its_on, predicates=sorted(usable))
    return done()
