"""C18 — encoded scenes and simulations decode and replay to the same thing.

Fault model: the *stored bytes* are the durable state; the simulator truncates them at
every offset (what a crash during a write leaves), flips single bytes, swaps in the bytes
of another program / other compile options, and -- for simulation replays -- perturbs one
dynamic property at one step of the replay by +-delta (a nondeterministic simulator).
Oracles: the original scene / simulation is the reference for the round trip; error-class
oracle for damaged data (strict prefix => SerializationError; corruption => either a
SerializationError or a successful decode, never another exception, never a hang);
DivergenceError iff |delta| > tolerance, for both signs.
"""

import hashlib
import json
import random
import signal

from .. import dyn, dyngen, dynrun, userlib
from . import c14, c19, dyncommon

ID = "C18"
LEVEL = "fault_enumeration"
TECHNIQUE = "deterministic simulation with storage faults: every truncation point / single-byte corruption of the encoding, foreign headers, replay under a perturbing stub simulator; original run is the reference"
BUDGET = {"quick": (3000, 50), "thorough": (300000, 1500)}
CHUNK = 4
RULE = (
    "one run = (a) one VAL program (global parameters and object properties of every value type a built-in "
    "distribution yields: ints at the codec width boundaries 252/253, +-2^15, +-2^31, 40-digit ints, floats, vectors, "
    "strings, bools, tuples, nested Options, conditional and lifted distributions, mutation) -> scene -> bytes: round "
    "trip, EVERY strict prefix (quick: <= 160 offsets incl. all in the first 40 and last 40 bytes), single-byte "
    "corruptions (quick: 48 tape-chosen (offset, mask); thorough: every offset x {^1, ^0x80, 0x00, 0xFF}), foreign "
    "program / foreign options headers; (b) one DYN program whose behaviors draw random values and use do "
    "choose/shuffle at run time -> simulation with replay recording -> replay (same trajectory / actions / records / "
    "termination) and replay under a perturbation of one dynamic property at one step by delta in {+-0.5 tau, +-2 tau}; "
    "distinct = digest of (programs, bytes, outcomes); non-trivial = encoding longer than the header and >= 1 fault applied"
)
COMPONENTS = {
    "real": ["scenic parser/compiler", "Serializer (scene header, value codecs)", "per-distribution encode/decode",
             "Scenario.sceneToBytes/sceneFromBytes", "Simulation replay recording / replaying / divergence check",
             "dynamics runtime"],
    "stub": ["storage: the encoded bytes in memory, damaged by the simulator", "external simulator (SimWorld with a perturbation knob)",
             "RNG back end (seeded from the tape)"],
}
ASSUMPTIONS = [
    "a truncated *replay* is not an error by design (the simulation continues randomly once the replay is exhausted); truncation is judged on scene encodings only",
    "a 20 s wall guard classifies a decode that does not return as 'decode-hang' (the decoders have no loops that depend on data, so this never fires on a healthy tree)",
    "scene equality is judged on a canonical dump of every object property and global parameter (numbers by repr)",
]

TIER = "quick"
MASKS = [0x01, 0x80, "zero", "ff"]


def set_tier(t):
    global TIER
    TIER = t


prepare = dyncommon.prepare


def classify(v):
    return v.get("detail", {}).get("finding")


# ---------------------------------------------------------------------------
# VAL programs
# ---------------------------------------------------------------------------
INT_EDGES = [0, 1, 252, 253, 254, 255, 256, 32767, 32768, -32768, -32769, 2147483647, 2147483648,
             -2147483648, -2147483649, 10**40, -(10**40), -1]


def val_program(tape):
    t = tape
    lines = []
    n = t.intrange(1, 6, "val.n")
    for i in range(n):
        k = t.draw(14, "val.kind")
        if k >= 12:
            # a range whose end point is itself random and stored nowhere else in the encoding
            # (dependencies of a primitive distribution are not encoded)
            e = t.choice(["DiscreteRange(1, DiscreteRange(3, 6))", "DiscreteRange(Range(0, 3), 10)",
                          "Uniform(7, DiscreteRange(DiscreteRange(0, 2), 5))", "Range(Range(0, 1), Range(2, 3))",
                          "DiscreteRange(Uniform(251, 32766), 32770)"], "val.nested_bound")
        elif k == 0:
            a = t.choice(INT_EDGES, "int.a")
            b = t.choice(INT_EDGES, "int.b")
            c = t.choice(INT_EDGES, "int.c")
            e = f"Uniform({a}, {b}, {c})"
        elif k == 1:
            # an int that is stored by value, within +-1 of a codec width boundary
            # (or, sometimes, a wide range)
            edge = t.choice(INT_EDGES[:14], "rng.edge")
            if t.chance(1, 4, "rng.wide"):
                e = f"DiscreteRange({edge}, {edge + t.intrange(0, 70000, 'rng.len')})"
            else:
                e = f"DiscreteRange({edge - t.draw(2, 'rng.below')}, {edge + t.draw(2, 'rng.above')})"
        elif k == 2:
            e = f"Range({t.intrange(-5, 5, 'r.lo')}, {t.intrange(6, 9, 'r.hi')})"
        elif k == 3:
            e = "Uniform('a', 'bc', '\\u00e9\\u00e8', '')"
        elif k == 4:
            e = "Uniform(True, False)"
        elif k == 5:
            e = "Options({(1, 2): 1, (3, 4): 2})"
        elif k == 6:
            e = f"Range(0, 1) @ Range({t.intrange(2, 4, 'v.y')}, 5)"
        elif k == 7:
            e = f"Normal({t.intrange(0, 3, 'n.mu')}, 1)"
        elif k == 8:
            e = f"Uniform(Range(0, 1), Uniform(5, {t.choice(INT_EDGES, 'nest.c')}), DiscreteRange(300, 400))"
        elif k == 9 and i > 0:
            e = f"(v{i - 1}, Range(0, 1) * 2 + 1)"
        elif k == 10:
            e = "TruncatedNormal(0, 1, -1, 2)"
        else:
            e = f"Options({{Range(0, 1): 1, {t.choice(INT_EDGES, 'opt.c')}: 1, 'x': 1}})"
        lines.append(f"v{i} = {e}")
        lines.append(f"param p{i} = v{i}")
    nobj = t.intrange(0, 2, "val.nobj")
    for j in range(nobj):
        extra = ""
        if t.chance(1, 2, "obj.yaw"):
            extra += ", facing Range(0, 3)"
        if t.chance(1, 2, "obj.size"):
            extra += ", with width Range(0.5, 1.5)"
        if t.chance(1, 3, "obj.prop"):
            extra += f", with tag Uniform('a', {t.choice(INT_EDGES, 'obj.tag')})"
        name = "ego" if j == 0 else f"obj{j}"
        lines.append(f"{name} = new Object at (Range({10 * j}, {10 * j + 4}), Range(0, 4), 0){extra}")
        if t.chance(1, 3, "obj.mutate"):
            lines.append(f"mutate {name}")
    return "\n".join(lines) + "\n"


class Guard:
    """Wall guard around one decode (never part of a decision unless it fires)."""

    def __init__(self, seconds=20):
        self.seconds = seconds

    def __enter__(self):
        def handler(signum, frame):
            raise TimeoutError("decode did not return")

        self.old = signal.signal(signal.SIGALRM, handler)
        signal.alarm(self.seconds)

    def __exit__(self, *a):
        signal.alarm(0)
        signal.signal(signal.SIGALRM, self.old)


def decode(scenario, data):
    """Returns ('ok', scene) | ('ser', msg) | ('other', exception class name) | ('hang', '')."""
    from scenic.core.serialization import SerializationError

    try:
        with Guard():
            return "ok", scenario.sceneFromBytes(data)
    except SerializationError as e:
        return "ser", str(e)[:80]
    except TimeoutError:
        return "hang", ""
    except Exception as e:  # noqa: BLE001
        import traceback

        return "other", f"{type(e).__name__}: {str(e)[:80]} @ {traceback.format_exception(e)[-2].strip()[:160]}"


def scene_part(tape, stats, violations, digest):
    import numpy
    import scenic

    src = val_program(tape)
    try:
        scenario = scenic.scenarioFromString(src)
    except Exception as e:  # noqa: BLE001
        violations.append({"clause": "compile-error", "detail": {"program": src, "error": f"{type(e).__name__}: {e}"[:300]}})
        return {"program": src}
    seed = tape.intrange(0, 9, "scene.seed")
    random.seed(seed)
    numpy.random.seed(seed)
    scene, its = scenario.generate(maxIterations=200, verbosity=0)
    data = scenario.sceneToBytes(scene)
    ref = c14.dump_scene(scene, 0)
    digest.update(src.encode() + data)
    sample = {"program": src, "seed": seed, "encoded_len": len(data), "encoded_hex": data.hex()[:200]}
    stats["scene_encodings"] = 1
    stats["encoded_bytes"] = len(data)
    # (i) round trip
    kind, res = decode(scenario, data)
    if kind != "ok":
        violations.append({"clause": "roundtrip-decode-failed", "detail": {"program": src, "seed": seed, "result": [kind, str(res)]}})
        return sample
    back = c14.dump_scene(res, 0)
    if back != ref:
        diff = c14.first_diff(ref, back)
        # known-finding matcher (call site + input predicate): the differing property
        # belongs to an object that the program mutates, and masking the mutated objects
        # makes the scenes equal
        names = ["ego"] + [f"obj{j}" for j in range(1, 3)]
        mutated = [j for j, nm in enumerate(names) if f"mutate {nm}\n" in src]

        def masked(d):
            d = json.loads(json.dumps(d))
            for j in mutated:
                if j < len(d["objects"]):
                    d["objects"][j] = "masked"
            return d

        finding = "mutated-object-noise-not-serialized" if mutated and masked(ref) == masked(back) else None
        violations.append({"clause": "roundtrip-scene-differs", "detail": {
            "program": src, "seed": seed, "diff": diff, "finding": finding}})
        if finding:
            stats["known:mutation_roundtrip"] = 1
    # (iii) every strict prefix
    n = len(data)
    if TIER == "thorough" or n <= 160:
        cuts = list(range(n))
    else:
        cuts = sorted(set(list(range(40)) + list(range(n - 40, n)) + [tape.draw(n, "cut") for _ in range(80)]))
    for k in cuts:
        kind, res = decode(scenario, data[:k])
        stats["truncations"] = stats.get("truncations", 0) + 1
        stats["truncation:" + kind] = stats.get("truncation:" + kind, 0) + 1
        if kind != "ser":
            what = res if kind != "ok" else ("decoded to the original scene" if c14.dump_scene(res, 0) == ref else "decoded to a different scene")
            violations.append({"clause": "truncated-data-not-refused" if kind == "ok" else
                               ("truncated-data-other-exception" if kind == "other" else "decode-hang"),
                               "detail": {"program": src, "seed": seed, "encoded_len": n, "prefix_len": k, "result": str(what),
                                          "encoded_hex": data.hex()[:400], "finding": None}})
            break
    # (iv) single-byte corruption
    if TIER == "thorough":
        faults = [(o, m) for o in range(n) for m in MASKS][:2400]
    else:
        faults = [(tape.draw(n, "corrupt.off"), tape.choice(MASKS, "corrupt.mask")) for _ in range(48)]
    for off, m in faults:
        b = bytearray(data)
        old = b[off]
        b[off] = (old ^ m) if isinstance(m, int) else (0 if m == "zero" else 255)
        if b[off] == old:
            continue
        kind, res = decode(scenario, bytes(b))
        stats["corruptions"] = stats.get("corruptions", 0) + 1
        stats["corruption:" + kind] = stats.get("corruption:" + kind, 0) + 1
        if kind in ("other", "hang"):
            violations.append({"clause": "corrupted-data-other-exception" if kind == "other" else "decode-hang",
                               "detail": {"program": src, "seed": seed, "offset": off, "mask": str(m), "result": str(res),
                                          "encoded_hex": data.hex()[:400], "finding": None}})
            break
    # (i') round trip of a scene sampled after the scenario was conditioned on part of an
    # earlier scene (a multi-step history of the same Scenario object)
    if "new Object" in src and "mutate" not in src and tape.chance(1, 2, "conditionOn?"):
        try:
            scenario.conditionOn(scene=scene, objects=(0,))
            random.seed(seed + 1)
            numpy.random.seed(seed + 1)
            sceneB, _ = scenario.generate(maxIterations=200, verbosity=0)
            dataB = scenario.sceneToBytes(sceneB)
        except Exception as e:  # noqa: BLE001 - conditioning itself is not under test
            stats["conditionOn:unusable:" + type(e).__name__] = 1
        else:
            stats["conditioned_roundtrips"] = 1
            kind, res = decode(scenario, dataB)
            refB = c14.dump_scene(sceneB, 0)
            if kind != "ok" or c14.dump_scene(res, 0) != refB:
                diff = c14.first_diff(refB, c14.dump_scene(res, 0)) if kind == "ok" else [kind, str(res)]
                violations.append({"clause": "roundtrip-after-conditioning-differs", "detail": {
                    "program": src, "seed": seed, "result": diff, "finding": None}})
        scenario = scenic.scenarioFromString(src)  # drop the conditioning again
    # (ii) foreign program / foreign options
    src2 = src + "param zz_extra = 1\n"
    sc2 = scenic.scenarioFromString(src2)
    # (the value of an overridden parameter is part of the options, also when it is falsy)
    ovr = tape.choice([1, 0, 0.0, False, "", 2, 1234568, 2.5000004, 1000000.75], "foreign.param.value")
    sc3 = scenic.scenarioFromString(src, params={"zz_override": ovr})
    # two compilations whose overridden value differs only slightly are different options too
    near = {1234568: 1234567, 2.5000004: 2.5000001, 1000000.75: 1000000.25}.get(ovr)
    if near is not None:
        sc4 = scenic.scenarioFromString(src, params={"zz_override": near})
        random.seed(seed)
        numpy.random.seed(seed)
        try:
            scene4, _ = sc4.generate(maxIterations=20, verbosity=0)
            data4 = sc4.sceneToBytes(scene4)
        except Exception:  # noqa: BLE001 - sampling is not under test here
            data4 = None
        if data4 is not None:
            kind, res = decode(sc3, data4)
            stats["foreign:near-option-value:" + kind] = stats.get("foreign:near-option-value:" + kind, 0) + 1
            if kind != "ser":
                violations.append({"clause": "foreign-data-not-refused", "detail": {
                    "program": src, "which": f"override {near!r} decoded under override {ovr!r}",
                    "result": [kind, str(res)[:200]]}})
    for name, other in (("other-program", sc2), ("other-options", sc3)):
        kind, res = decode(other, data)
        stats["foreign:" + name + ":" + kind] = stats.get("foreign:" + name + ":" + kind, 0) + 1
        if kind != "ser":
            violations.append({"clause": "foreign-data-not-refused", "detail": {
                "program": src, "which": name, "result": [kind, str(res)[:200]]}})
    return sample


# ---------------------------------------------------------------------------
# simulation replay
# ---------------------------------------------------------------------------
FEAT = dict(c19.FEAT, p_guards=2, w_choose=4, w_shuffle=4, w_draw=5, max_steps=(3, 7), draw_edges=True)
TAU = 0.5


def sim_digest(o):
    return c14.sim_digest(o)


def replay_part(tape, stats, violations, digest):
    import numpy
    from scenic.core.simulators import DivergenceError

    g = dyngen.Gen(tape, FEAT)
    prog = g.program()
    src = dyn.render(prog)
    dynrun.sanitize()
    try:
        scenario = dynrun.compile_prog(src, top=None if prog["flat"] else "Main")
    except Exception as e:  # noqa: BLE001
        violations.append({"clause": "compile-error", "detail": {"program": src, "error": f"{type(e).__name__}: {e}"[:300]}})
        return {"program": src}
    nobj = dyngen.count_objects(prog)
    ms = prog["max_steps"]
    tables = g.tables(prog, ms + 2)
    schedule = g.schedule(ms + 1, nobj)
    seed = tape.intrange(0, 9, "sim.seed")
    # magnitude of the dynamic properties: the tolerance is absolute, whatever their size
    scale = tape.choice([1.0, 1.0, 1.0, 1e10], "world.scale")
    drift = (1.0 * scale, 0.5 * scale, 0.0)
    sample = {"dyn_program": src, "sim_seed": seed, "world_drift": list(drift)}

    def simulate(replay=None, perturb=None, tol=0.0, rng_seed=seed):
        dynrun.set_env(tables)
        random.seed(rng_seed)
        numpy.random.seed(rng_seed)
        return dynrun.simulate_scene(
            scene, schedule, ms, prog["timestep"],
            sim_kwargs=dict(replay=replay, enableDivergenceCheck=True, divergenceTolerance=tol),
            world_kwargs=dict(drift=drift, perturb=perturb))

    dynrun.set_env(tables)
    random.seed(seed)
    numpy.random.seed(seed)
    try:
        scene, _ = scenario.generate(maxIterations=1, verbosity=0)
    except Exception:  # noqa: BLE001
        stats["sim:scene-reject"] = 1
        return sample
    o1 = simulate()
    stats["simulations"] = 1
    stats["sim_outcome:" + o1["kind"]] = 1
    if o1["kind"] != "ok":
        return sample
    rep = o1["sim"].getReplay()
    digest.update(src.encode() + rep)
    sample["replay_len"] = len(rep)
    d1 = sim_digest(o1)
    # replay with a *different* RNG seed: run-time random choices must come from the replay
    o2 = simulate(replay=rep, rng_seed=seed + 1000)
    stats["replays"] = 1
    if o2["kind"] == "exception" or sim_digest(o2) != d1:
        violations.append({"clause": "replay-differs", "detail": {
            "program": src, "seed": seed, "diff": c14.first_diff(d1, sim_digest(o2)),
            "replay_outcome": {k: v for k, v in o2.items() if k in ("kind", "exc", "msg", "where", "time")}}})
        return sample
    # second generation: the replayed simulation is itself encoded and replayed
    rep2 = o2["sim"].getReplay()
    o4 = simulate(replay=rep2, rng_seed=seed + 2000)
    stats["second_generation_replays"] = 1
    if o4["kind"] == "exception" or sim_digest(o4) != d1:
        violations.append({"clause": "replay-of-replay-differs", "detail": {
            "program": src, "seed": seed, "diff": c14.first_diff(d1, sim_digest(o4)),
            "replay_lengths": [len(rep), len(rep2)],
            "replay_outcome": {k: v for k, v in o4.items() if k in ("kind", "exc", "msg", "where", "time")}}})
        return sample
    o4.pop("sim", None)
    # divergence: perturb one dynamic property at one step of the replay
    if o1["time"] >= 1:
        step = tape.intrange(1, o1["time"], "perturb.step")
        oi = tape.draw(max(1, nobj), "perturb.obj")
        prop = tape.choice(["position", "yaw", "velocity", "speed"], "perturb.prop")
        factor = tape.choice([0.5, -0.5, 2.0, -2.0], "perturb.factor")
        delta = factor * TAU
        o3 = simulate(replay=rep, perturb=(step, oi, prop, delta), tol=TAU, rng_seed=seed + 1000)
        applied = any(e[1] == "perturb" for e in o3.get("log", []))
        diverged = o3["kind"] == "exception" and o3.get("exc") == "DivergenceError"
        stats["perturbations"] = 1
        stats[f"perturb:{prop}:{'large' if abs(factor) > 1 else 'small'}:{'neg' if factor < 0 else 'pos'}"] = 1
        if applied:
            stats["perturbations_applied"] = 1
            want = abs(delta) > TAU
            if diverged != want:
                violations.append({"clause": "divergence-missed" if want else "divergence-false-alarm", "detail": {
                    "program": src, "seed": seed, "perturb": [step, oi, prop, delta], "tolerance": TAU,
                    "outcome": {k: v for k, v in o3.items() if k in ("kind", "exc", "msg", "time")},
                    "finding": None}})
        del o3
    # storage faults on the recording of the simulation: truncated or corrupted replay data
    # may be refused (SerializationError), may expose a divergence, may reject or may happen
    # to decode to a valid run -- but must never fail in any other way
    if len(rep) > 1:
        for _ in range(3):
            if tape.chance(1, 3, "replay.truncate?"):
                bad = rep[: tape.draw(len(rep), "replay.cut")]
                what = ["truncate", len(bad)]
            else:
                off = tape.draw(len(rep), "replay.off")
                mask = tape.choice([1, 0x80, 0xFF, 0x10], "replay.mask")
                bad = rep[:off] + bytes([rep[off] ^ mask]) + rep[off + 1:]
                what = ["flip", off, mask]
            o5 = simulate(replay=bad, tol=TAU, rng_seed=seed + 3000)
            o5.pop("sim", None)
            k = "replay-fault:" + what[0] + ":" + (o5.get("exc") or o5["kind"])
            stats[k] = stats.get(k, 0) + 1
            if o5["kind"] == "exception" and o5.get("exc") not in ("SerializationError", "DivergenceError"):
                violations.append({"clause": "corrupted-replay-other-exception", "detail": {
                    "program": src, "seed": seed, "fault": what, "replay_len": len(rep),
                    "outcome": {k: v for k, v in o5.items() if k in ("kind", "exc", "msg", "where", "time")},
                    "finding": None}})
                break
            dynrun.sanitize()
    o1.pop("sim", None)
    o2.pop("sim", None)
    dynrun.sanitize()
    return sample


def run(tape):
    stats = {}
    violations = []
    digest = hashlib.blake2b(digest_size=8)
    s1 = scene_part(tape, stats, violations, digest)
    s2 = replay_part(tape, stats, violations, digest) if all(v["detail"].get("finding") for v in violations) else {}
    digest.update(json.dumps(sorted(stats.items())).encode())
    sample = dict(s1)
    sample.update(s2)
    return {
        "violations": violations,
        "digest": digest.hexdigest(),
        "key": digest.hexdigest(),
        "nontrivial": stats.get("encoded_bytes", 0) > 10 and (stats.get("truncations", 0) + stats.get("corruptions", 0)) > 0,
        "stats": stats,
        "sample": sample,
        "steps": stats.get("truncations", 0) + stats.get("corruptions", 0),
        "simsec": 0.0,
    }
