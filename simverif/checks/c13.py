"""C13 — interrupts pre-empt and resume as documented; guards are checked when promised.

Workload: the interrupt fragment of DYN (nested try-interrupt, up to 3 handlers, handlers
that take actions / invoke sub-behaviours / abort / break / continue / return, inside
loops and sub-behaviours) plus preconditions and invariants on behaviors and scenarios,
guards that raise rejections, raiseGuardViolations on/off.  Schedule space: the truth
tables of interrupt conditions and guards flip between any two yields of body and
handlers (the simulator owns them), plus the agent schedule.  Oracle: the reference
interpreter of the documented try-interrupt / guard semantics (simverif.dyn.Ref).
"""

from . import dyncommon

ID = "C13"
LEVEL = "exploration"
TECHNIQUE = "deterministic simulation: step-indexed condition/guard flips vs reference interpreter of try-interrupt and guard semantics"
BUDGET = {"quick": (6000, 60), "thorough": (600000, 1500)}
CHUNK = 10
RULE = (
    "one run = one DYN program of the interrupt fragment (try-interrupt nesting <= 3, <= 3 handlers, "
    "abort/break/continue/return, sub-behaviours, loops, preconditions/invariants incl. guards raising "
    "rejections) simulated under SimWorld for 1-6 environments (truth tables of every condition and guard "
    "per step, agent schedule, raiseGuardViolations flag - all from the tape); distinct = digest of (program, "
    "tables, schedule, outcome); non-trivial = some environment ran >= 2 steps and the program has >= 2 coroutines"
)
COMPONENTS = dyncommon.COMPONENTS
ASSUMPTIONS = dyncommon.ASSUMPTIONS + [
    "every interrupt handler starts with a take/wait, so a handler whose condition stays true cannot spin without yielding",
    "compose blocks use try-interrupt only around waits (abandoning a block with a running sub-scenario is not documented)",
]

FEAT = dict(
    w_try=5, p_guards=3, p_grej=2, n_subscenarios=(0, 1), n_monitors=(0, 1), n_agents=(1, 2),
    w_terminate=1, w_terminatesim=1, p_termwhen=1, p_termsimwhen=1, p_termafter=1, p_ltl=0, p_record=1,
    w_do=3, w_do_for=2, w_do_until=2, max_steps=(3, 8), compose_try_waits_only=True, p_bind_instance=4,
)
BUG_MODELS = ("inv_during_sub", "nested_return")

prepare = dyncommon.prepare
classify = dyncommon.classify


def run(tape):
    return dyncommon.run_dyn(tape, FEAT, BUG_MODELS, raise_guards_choice=True)


def run_case(case):
    return dyncommon.run_dyn_case(case, BUG_MODELS)


shrink_case = dyncommon.shrink_case
