"""C13 — interrupts pre-empt and resume as documented; guards are checked when promised.

Workload: the interrupt fragment of DYN (nested try-interrupt, up to 3 handlers, handlers
that take actions / invoke sub-behaviours / abort / break / continue / return, inside
loops and sub-behaviours) plus preconditions and invariants on behaviors and scenarios,
guards that raise rejections, raiseGuardViolations on/off.  Schedule space: the truth
tables of interrupt conditions and guards flip between any two yields of body and
handlers (the simulator owns them), plus the agent schedule.  Oracle: the reference
interpreter of the documented try-interrupt / guard semantics (simverif.dyn.Ref).
"""

from . import dyncommon

ID = "C13"
LEVEL = "exploration"
TECHNIQUE = "deterministic simulation: step-indexed condition/guard flips vs reference interpreter of try-interrupt and guard semantics"
BUDGET = {"quick": (6000, 60), "thorough": (600000, 1500)}
CHUNK = 10
RULE = (
    "one run = one DYN program of the interrupt fragment (try-interrupt nesting <= 3, <= 3 handlers, "
    "abort/break/continue/return, sub-behaviours, loops, preconditions/invariants incl. guards raising "
    "rejections) simulated under SimWorld for 1-6 environments (truth tables of every condition and guard "
    "per step, agent schedule, raiseGuardViolations flag - all from the tape); distinct = digest of (program, "
    "tables, schedule, outcome); non-trivial = some environment ran >= 2 steps and the program has >= 2 coroutines"
)
COMPONENTS = dyncommon.COMPONENTS
ASSUMPTIONS = dyncommon.ASSUMPTIONS + [
    "every interrupt handler starts with a take/wait, so a handler whose condition stays true cannot spin without yielding",
    "compose blocks use try-interrupt only around waits (abandoning a block with a running sub-scenario is not documented), "
    "except in the separate family 'compose pre-emption' (1 run in 16): `try: do SubA() interrupt when c: do SubB() / wait`, "
    "judged by an order check over the event history (statement after the `do` only after SubA's compose block finished) "
    "instead of the reference interpreter",
]

FEAT = dict(
    w_try=5, p_guards=3, p_grej=2, n_subscenarios=(0, 1), n_monitors=(0, 1), n_agents=(1, 2),
    w_terminate=1, w_terminatesim=1, p_termwhen=1, p_termsimwhen=1, p_termafter=1, p_ltl=0, p_record=1,
    w_do=3, w_do_for=2, w_do_until=2, max_steps=(3, 8), compose_try_waits_only=True, p_bind_instance=4,
)
BUG_MODELS = ("inv_during_sub", "nested_return")

prepare = dyncommon.prepare
classify = dyncommon.classify


def run(tape):
    if tape.chance(1, 16, "family.compose_preempt"):
        return run_compose_preempt(tape)
    return dyncommon.run_dyn(tape, FEAT, BUG_MODELS, raise_guards_choice=True)


# ---------------------------------------------------------------------------
# family "compose pre-emption": a compose block running sub-scenarios with `do` inside
# try-interrupt (the shape shown in the composition tutorial).  What happens to a
# pre-empted sub-scenario while the handler runs is not documented in detail, so this
# family does not use the reference interpreter; its oracle is an order check over the
# recorded history that holds under every reading of the documentation:
#   "a pre-empted block later resumes exactly where it stopped"  ==>  the statement after
#   `do SubA()` runs only after SubA's compose block has finished, and the statement after
#   the whole try-interrupt only after that.
# ---------------------------------------------------------------------------
def _preempt_case(tape):
    dA = tape.intrange(2, 5, "pre.dA")
    dB = tape.intrange(1, 3, "pre.dB")
    handler = tape.choice(["do", "do", "wait", "dofor"], "pre.handler")
    agents = tape.chance(1, 2, "pre.agents")
    parallel = tape.chance(1, 4, "pre.parallel")
    steps = dA + 3 * (dB + 1) + 5
    fires = [False] * (steps + 2)
    for _ in range(tape.intrange(1, 2, "pre.nfires")):
        fires[tape.intrange(0, dA + 1, "pre.fire")] = True
    return {"family": "compose_preempt", "dA": dA, "dB": dB, "handler": handler, "agents": agents,
            "parallel": parallel, "max_steps": steps, "fires": "".join("1" if b else "0" for b in fires)}


def _preempt_source(c):
    L = ["from simverif.userlib import tab, ev, Tok"]
    if c["agents"]:
        L += ["behavior Act(n):", "    while True:", "        take Tok(n)"]
    for name, d in (("SubA", c["dA"]), ("SubB", c["dB"]), ("SubC", 1)):
        L += [f"scenario {name}():"]
        if c["agents"] and name != "SubC":
            x = {"SubA": 10, "SubB": 20}[name]
            L += ["    setup:", f"        o{name} = new Object at ({x}, 0, 0), with name 'o{name}', with behavior Act('{name}')"]
        L += ["    compose:", f"        ev('{name}.start')"]
        L += ["        wait"] * d
        L += [f"        ev('{name}.end')"]
    L += ["scenario Main():", "    setup:", "        ego = new Object at (0, 0, 0), with name 'ego'", "    compose:", "        try:"]
    L += ["            do SubA(), SubC()" if c["parallel"] else "            do SubA()", "            ev('body.after')"]
    L += ["        interrupt when tab(0):"]
    if c["handler"] == "do":
        L += ["            do SubB()"]
    elif c["handler"] == "dofor":
        L += [f"            do SubB() for {c['dB']} steps"]
    else:
        L += ["            wait"] * c["dB"]
    L += ["            ev('handler.end')", "        ev('after-try')", "        wait"]
    return "\n".join(L) + "\n"


def run_preempt_case(c):
    import hashlib
    import json

    from .. import dynrun

    src = _preempt_source(c)
    dynrun.sanitize()
    scenario = dynrun.compile_prog(src, top="Main")
    tables = {0: [ch == "1" for ch in c["fires"]]}
    nobj = 3 if c["agents"] else 1
    schedule = [[0] * nobj for _ in range(c["max_steps"] + 1)]
    impl = dynrun.run_impl(scenario, tables, schedule, c["max_steps"], "1", seed=0)
    log = [list(x) for x in dynrun.norm_log(impl["log"])]
    evs = [lab for _, kind, lab in log if kind == "ev"]
    stats = {"programs": 1, "env_runs": 1, "family:compose_preempt": 1, "result:" + impl["kind"]: 1}
    violations = []
    fired_during_A = False
    if "handler.end" in evs and "SubA.start" in evs:
        i = evs.index("handler.end")
        fired_during_A = "SubA.end" not in evs[:i]
    if fired_during_A:
        stats["probe:handler_preempted_running_sub_scenario"] = 1
    problem = None
    if impl["kind"] != "ok":
        problem = {"what": "simulation did not complete", "outcome": {k: v for k, v in impl.items() if k in ("kind", "exc", "msg", "where", "time")}}
    else:
        def pos(lab):
            return evs.index(lab) if lab in evs else None
        a_end, after_do, after_try = pos("SubA.end"), pos("body.after"), pos("after-try")
        if after_try is None or after_do is None:
            problem = {"what": "the compose block never reached the statement after the try-interrupt within the step budget"}
        elif a_end is None or not (a_end < after_do < after_try):
            problem = {"what": "the statement after `do SubA()` ran although SubA's compose block had not finished"
                       if a_end is None or a_end > after_do else "statement order"}
    if problem:
        key = None
        if c["handler"] in ("do", "dofor") and fired_during_A:
            key = "compose-preempted-do-not-resumed"
        problem.update(events=evs, finding=key, program=src, fires=c["fires"])
        violations.append({"clause": "compose-preempted-do-not-resumed", "detail": problem})
    dynrun.sanitize()
    dig = hashlib.blake2b(json.dumps([c, impl["kind"], log], sort_keys=True, default=repr).encode(), digest_size=8).hexdigest()
    return {
        "violations": violations, "digest": dig, "key": dig, "nontrivial": impl.get("time", 0) >= 2,
        "stats": stats, "steps": impl.get("time", 0), "simsec": float(impl.get("time", 0)),
        "sample": {"program": src, "fires": c["fires"], "max_steps": c["max_steps"], "impl": {k: v for k, v in impl.items() if k in ("kind", "time", "termtype", "exc", "msg")}, "impl_log": log[:200]},
        "case": c,
    }


def run_compose_preempt(tape):
    return run_preempt_case(_preempt_case(tape))


def run_case(case):
    if case.get("family") == "compose_preempt":
        return run_preempt_case(case)
    return dyncommon.run_dyn_case(case, BUG_MODELS)


def shrink_case(case, still_fails, **kw):
    if case.get("family") == "compose_preempt":
        return case, 0  # six small integers: the tape stage already minimised them
    return dyncommon.shrink_case(case, still_fails, **kw)
