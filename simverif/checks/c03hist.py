"""C03 workload families with a HISTORY or an OFF-CENTRE mesh (called from c03.run for 4 in 21 runs).

* footprint history: ONE PolygonalFootprintRegion (polygon.footprint: the infinite prism over a polygon with
  holes / several parts) is composed successively, in one process, with 2-4 box volumes of very different
  height and altitude (small first then tall and low, the reverse, or tape-chosen), by intersect or difference;
  each composition is judged on its own: membership of every draw, chi-square / coverage over cells that
  follow the (possibly 400 m tall) set.  State the footprint object carries from one use to the next
  (its cached bounded prism) is thereby exercised.
* off-centre point-set intersection: a PointSetRegion / GridRegion far from the origin is intersected with a
  mesh volume that is NOT centred on its `position`: the result of boxA.intersect(boxB) / boxA.difference(boxB)
  or a MeshVolumeRegion built with centerMesh=False; the exact law over every RNG outcome must be uniform on
  the reference set (the sampler's query ball comes from the mesh's circumcircle).
"""

import hashlib
import json
import traceback

import numpy as np

from .. import regionref as rr
from ..seams import SeededRNG

PATTERNS = [[(1.0, 0.0), (400.0, -150.0)], [(400.0, -150.0), (1.0, 0.0)], [(2.0, 5.0), (40.0, -20.0), (400.0, 150.0)],
            [(400.0, 150.0), (40.0, 0.0), (1.0, -60.0)], [(1.0, 0.0), (40.0, -30.0), (400.0, -190.0), (4.0, 2.0)]]


def boxes(t, c, tag, base, dims=None):
    """A BoxRegion near c (yaw only) and its reference."""
    import scenic.core.regions as R
    from scenic.core.vectors import Orientation, Vector
    d = dims or (2.0 + 0.5 * t.draw(5, tag + "w"), 2.0 + 0.5 * t.draw(5, tag + "l"), 1.0 + 0.5 * t.draw(4, tag + "h"))
    pos = [c[0] + 0.5 * base.zig(t.draw(5, tag + "dx")), c[1] + 0.5 * base.zig(t.draw(5, tag + "dy")), c[2]]
    yaw = base.ANG[t.draw(8, tag + "yaw")]
    return R.BoxRegion(dimensions=d, position=Vector(*pos), rotation=Orientation.fromEuler(yaw, 0, 0)), rr.BoxRef(d, pos, (yaw, 0.0, 0.0))


def run_history(tape, base):
    import scenic.core.regions as R
    import shapely.geometry as sg
    import trimesh
    from scenic.core.vectors import Vector

    fam = min(1, tape.draw(4, "family"))  # 0: footprint history (expensive: 1 in 4), 1-3: off-centre point-set intersection
    stats, violations, steps, extra, log = {"workload:" + ["footprint-history", "off-centre-pointset-x-mesh"][fam]: 1}, [], 0, {}, []
    seed = tape.draw(1 << 30, "rng-seed")
    desc = {"workload": ["footprint-history", "off-centre-pointset-x-mesh"][fam]}
    try:
        if fam == 0:
            shape = tape.choice(sorted(base.SHAPES), "shape")
            s, c = 0.5 + 0.5 * tape.draw(3, "scale"), (1.5 * base.zig(tape.draw(3, "x")), 1.5 * base.zig(tape.draw(3, "y")))
            f = lambda p: (c[0] + s * (p[0] - 1.5), c[1] + s * (p[1] - 1.5))  # noqa: E731
            parts = [([f(p) for p in sh], [[f(p) for p in h] for h in hs]) for sh, hs in base.SHAPES[shape]]
            polys = [sg.Polygon(sh, hs) for sh, hs in parts]
            fp = R.PolygonalRegion(polygon=polys[0] if len(polys) == 1 else sg.MultiPolygon(polys), z=1.25 * tape.draw(2, "z")).footprint
            fref = rr.PolyRef(base.rings_of(parts), (0.0, 0.0, 0.0), kind="footprint", desc={"kind": "PolygonalFootprintRegion", "parts": parts})
            fref.zfree, fref.dim, fref.measure = True, 3, float("inf")  # the infinite prism over the polygon
            pat = tape.draw(len(PATTERNS) + 2, "pattern")
            seq = PATTERNS[pat] if pat < len(PATTERNS) else [([1.0, 400.0, 40.0, 4.0][tape.draw(4, f"h{i}")], [0.0, -150.0, 150.0, -20.0][tape.draw(4, f"z{i}")])
                                                             for i in range(2 + tape.draw(3, "k"))]
            desc.update(footprint=fref.desc, steps=[])
            maxpad = 0.0
            for i, (h, zc) in enumerate(seq):
                op = ["difference", "intersect"][tape.draw(2, f"op{i}")]
                box, bref = boxes(tape, (c[0], c[1], zc), f"B{i}.", base, dims=(2.0 + 0.5 * tape.draw(5, f"B{i}.w"), 2.0 + 0.5 * tape.draw(5, f"B{i}.l"), h))
                reg, ref = getattr(box, op)(fp), rr.Comp(op, bref, fref)
                desc["steps"].append({"op": op, "box": bref.desc, "result": type(reg).__name__})
                stats["history:" + op] = stats.get("history:" + op, 0) + 1
                if isinstance(reg, R.EmptyRegion):
                    stats["history:empty-result"] = stats.get("history:empty-result", 0) + 1
                    continue
                P, rej = base.draw_batch(reg, 300, SeededRNG(seed + i), seed + i, 0, stats)
                steps += len(P)
                log.append(np.round(P, 9).tolist())
                info = {"footprint": fref.desc, "history_before_this_step": desc["steps"][:-1], "this_step": desc["steps"][-1], "seed": seed + i}
                v = base.member_violations(ref, P, "membership", info)
                if not v and len(P) >= 250:
                    v = base.uniformity(ref, P, info, stats, extra)
                # the prism cached in the footprint so far: approxBoundFootprint pads it to 100 * max(1, centreZ) * (height + 1)
                maxpad = max(maxpad, 100.0 * max(1.0, zc) * (h + 1.0))
                for x in v if maxpad >= 1e6 else []:  # a prism thousands of km tall: the mesh boolean no longer resolves the polygon
                    x["detail"].update(finding="footprint-prism-overpadded-at-altitude", padded_prism_height_m=maxpad)
                violations += v
                if violations:
                    break
            stats["history:compositions"] = len(desc["steps"])
        else:
            grid = tape.draw(3, "grid") == 2
            c = [6.0 + 1.5 * base.zig(tape.draw(5, "x")), -5.0 + 1.5 * base.zig(tape.draw(5, "y")), 0.0 if grid else 1.25 * tape.draw(3, "z")]
            mask = tape.draw(1 << 16, "mask") | 0x8421
            if grid:
                g = [[1 - (mask >> (y * 4 + x) & 1) for x in range(4)] for y in range(4)]
                ps = R.GridRegion("grid", g, 0.5, 0.5, c[0] - 0.75, c[1] - 0.75)
                pts = [(0.5 * x + c[0] - 0.75, 0.5 * y + c[1] - 0.75, 0.0) for y in range(4) for x in range(4) if not g[y][x]]
            else:
                pts = [(c[0] + 0.5 * (i % 4 - 1.5), c[1] + 0.5 * (i // 4 - 1.5), c[2] + (0.5 if tape.draw(4, f"pz{i}") == 3 else 0.0)) for i in range(16) if mask >> i & 1]
                ps = R.PointSetRegion("ps", pts)
            kind = tape.draw(3, "mesh")
            a, aref = boxes(tape, c, "A.", base)
            if kind == 2:
                m = trimesh.creation.box(tuple(aref.h * 2))
                m.apply_transform(np.vstack([np.column_stack([aref.R, aref.pos]), [0, 0, 0, 1]]))
                M, mref, how = R.MeshVolumeRegion(m, centerMesh=False), aref, "MeshVolumeRegion(box mesh placed at its final location, centerMesh=False)"
            else:
                b, bref = boxes(tape, c, "B.", base)
                op = ["intersect", "difference"][kind]
                M, mref, how = getattr(a, op)(b), rr.Comp(op, aref, bref), f"boxA.{op}(boxB)"
            desc.update(points=pts, mesh=how, mesh_ref=mref.desc, grid=grid)
            stats["offcentre:" + how.split("(")[0]] = 1
            if isinstance(M, R.EmptyRegion):
                stats["offcentre:empty-mesh"] = 1
            else:
                reg = ps.intersect(M) if tape.draw(2, "order") == 0 else M.intersect(ps)
                desc["mesh_position_attribute"], desc["mesh_bounding_box_centre"] = list(base.xyz(M.position)), [float(x) for x in M.mesh.bounding_box.center_mass]
                ref = rr.Comp("intersect", rr.PtsRef(pts, "grid" if grid else "pointset"), mref)
                info = {"region": desc, "seed": seed}
                law = base.enumerate_law(reg, stats)
                P, rej = base.draw_batch(reg, 100, SeededRNG(seed), seed, 0, stats)
                steps = len(P)
                log.append([np.round(P, 9).tolist(), repr(sorted(law[0].items())) if law else None])
                violations += base.law_violations(ref, law[0], law[1], info) if law else base.member_violations(ref, P, "membership", info)
    except (NotImplementedError, R.UndefinedSamplingException, AttributeError, TypeError, ValueError, ZeroDivisionError, RecursionError) as e:
        if not any(s in traceback.extract_tb(e.__traceback__)[-1].filename for s in ("/scenic/", "/shapely/", "/trimesh/", "/manifold")):
            raise
        stats[f"library-refused:{type(e).__name__}"] = stats["unjudged:library-refused"] = 1
    key = hashlib.blake2b(json.dumps(desc, sort_keys=True, default=repr).encode(), digest_size=8).hexdigest()
    dig = hashlib.blake2b(json.dumps([key, log, sorted(stats.items()), [v["clause"] for v in violations]], default=repr).encode(), digest_size=8)
    return {"violations": violations, "digest": dig.hexdigest(), "key": key, "stats": stats, "steps": steps, "simsec": 0.0, "nontrivial": True,
            "sample": dict(desc, seed=seed, **extra)}
