"""C03 workload family "lazy regions across scenes" (called from c03.run for a share of the runs).

A Scenic program is drawn from the tape and compiled by the real front end
(scenic.scenarioFromString): a Point / Object is placed `in` / `on` a region whose parameters
(heading, position, radius, size, height, opening angle) are random values (Range, Uniform
options, DiscreteRange) -- primitives, point set / grid x region, intersect / union / difference
of two regions.  SEVERAL scenes are generated from the SAME compiled scenario (optionally
interleaved with a second scenario) through the RNG seam, so state carried from one sample to the
next inside the library is exercised.  Per scene the concrete region is rebuilt from the scene's
sampled parameter values as an independent reference set (simverif.regionref):
  (a) the position must be a member, in all three coordinates;
  (b) discrete intersections: every RNG outcome of scenario.generate is enumerated with the
      branching back end (hundreds of consecutive scenes of the same scenario); for every value of
      the parameters the law of the position must be uniform on that value's reference set.
"""

import hashlib
import itertools
import json
import traceback
from fractions import Fraction

import numpy as np

from .. import regionref as rr
from ..seams import SeededRNG, TreeTooLarge, patched_random, walk_tree

STRATA = 12
PTS = [(0.6 * i, 0.6 * j) for i in range(-2, 3) for j in range(-2, 3)]


class Var:
    """A random scalar of the program: source text, value in a scene, support under the branching seam."""

    def __init__(self, name, decl, support):
        self.name, self.src, self.decl, self.support = name, name, decl, support

    def val(self, params):
        return float(params[self.name])


class Const(Var):
    def __init__(self, v):
        self.name, self.src, self.support, self.v = None, repr(v), [v], v

    def val(self, params):
        return self.v


class Prog:
    def __init__(self, t, tag, max_vars):
        self.t, self.tag, self.vars, self.max_vars, self.lines = t, tag, [], max_vars, []

    def num(self, label, base, step, odds=3):
        """A number near base: constant, or (1 in `odds`) a fresh random variable."""
        t = self.t
        if len(self.vars) >= self.max_vars or t.draw(odds, f"{self.tag}{label}?") != odds - 1:
            return Const(base)
        name, how = f"v{len(self.vars)}", t.draw(3, f"{self.tag}{label}dist")
        if how == 0 or (how == 1 and any("Range(" in v.decl and "Discrete" not in v.decl for v in self.vars)):  # at most one Range
            opts = [round(base + step * k, 6) for k in range(2 + t.draw(2, f"{self.tag}{label}n"))]
            v = Var(name, "Uniform(" + ", ".join(map(repr, opts)) + ")", opts)
        elif how == 1:
            lo, hi = base, round(base + step * (1 + t.draw(3, f"{self.tag}{label}w")), 6)
            v = Var(name, f"Range({lo!r}, {hi!r})", [lo + (hi - lo) * ((i + 0.5) / STRATA) for i in range(STRATA)])
        else:
            k = 1 + t.draw(3, f"{self.tag}{label}k")
            v = Var(name, f"{base!r} + {step!r} * DiscreteRange(0, {k})", [base + step * i for i in range(k + 1)])
        self.vars.append(v)
        return v

    def leaf(self, kind, c, z, name):
        """(source of a region expression, builder of its reference set from the scene's parameters)."""
        t, tag, n = self.t, self.tag + name, self.num
        x, y = n(name + "x", c[0], 0.5, 4), n(name + "y", c[1], 0.5, 5)
        pos = f"Vector({x.src}, {y.src}, {z.src})"
        P = lambda p: (x.val(p), y.val(p), z.val(p))  # noqa: E731
        size = 1.0 + 0.5 * t.draw(4, tag + "size")
        if kind == "rect":
            h, w, l = n(name + "h", [0.0, 0.3, -1.1][t.draw(3, tag + "h0")], 0.7853981633974483, 2), n(name + "w", size, 0.5), n(name + "l", 2 * size, 0.5)
            return f"RectangularRegion({pos}, {h.src}, {w.src}, {l.src})", lambda p: rr.RectRef(P(p), h.val(p), w.val(p), l.val(p))
        if kind == "circle":
            r = n(name + "r", size, 0.5, 2)
            return f"CircularRegion({pos}, {r.src})", lambda p: rr.DiscRef(P(p), r.val(p))
        if kind == "sector":
            r, h, a = n(name + "r", 1 + size, 0.5), n(name + "h", [0.0, 2.5][t.draw(2, tag + "h0")], 0.7853981633974483, 2), n(name + "a", [1.0, 2.5, 4.0][t.draw(3, tag + "a0")], 0.6, 2)
            return f"SectorRegion({pos}, {r.src}, {h.src}, {a.src})", lambda p: rr.DiscRef(P(p), r.val(p), h.val(p), a.val(p))
        if kind == "box":
            w, l, hh = n(name + "w", size, 0.5, 2), n(name + "l", 1.5 * size, 0.5), n(name + "hh", 1.0, 0.5)
            return (f"BoxRegion(dimensions=({w.src}, {l.src}, {hh.src}), position={pos})",
                    lambda p: rr.BoxRef((w.val(p), l.val(p), hh.val(p)), P(p), (0.0, 0.0, 0.0)))
        ring = [(c[0] + size * a, c[1] + size * b) for a, b in ((0, 0), (2, 0), (2, 1), (1, 1), (1, 2), (0, 2))]  # polygon: only z random
        return f"PolygonalRegion(points={ring!r}, z={z.src})", lambda p: rr.PolyRef([ring], (0.0, 0.0, z.val(p)), desc={"ring": ring})


def make_program(t, tag):
    op = ["prim", "ps", "ps", "grid", "intersect", "difference", "ps", "intersect", "difference", "union"][t.draw(10, tag + "op")]
    discrete = op in ("ps", "grid")
    g = Prog(t, tag, 2 if discrete else 3)
    z0 = [0.0, 1.25][t.draw(2, tag + "z0")] if op != "grid" else 0.0
    kinds = ["rect", "sector", "circle", "box"] + ([] if discrete else ["polygon"])
    k1 = t.choice(kinds, tag + "k1")
    # point-set x footprint-based classes (rect): height fixed at the points' height (the height defect is a known finding of its own)
    z = Const(z0) if (discrete and k1 == "rect") or k1 == "box" and discrete else g.num("z", z0, 0.5, 3)
    s1, ref1 = g.leaf(k1, (0.0, 0.0), z, "A")
    lines = [f"{v.name} = {v.decl}" for v in g.vars]
    if discrete:
        mask = t.draw(1 << 20, tag + "mask") | 0x1010101
        pts = [(a, b, z0) for i, (a, b) in enumerate(PTS) if mask >> (i % 20) & 1 or i % 6 == 0]
        if op == "ps":
            lines.append(f"S = PointSetRegion('ps', {pts!r})")
            sref = rr.PtsRef(pts)
        else:
            grid = [[mask >> (r * 5 + c) & 1 and (r + c) % 2 for c in range(5)] for r in range(4)]
            lines += ["from scenic.core.regions import GridRegion", f"S = GridRegion('g', {grid!r}, 0.5, 0.5, -1.0, -1.0)"]
            sref = rr.PtsRef([(0.5 * c - 1.0, 0.5 * r - 1.0, 0.0) for r in range(4) for c in range(5) if not grid[r][c]], "grid")
        lines.append(f"reg = S.intersect({s1})" if t.draw(2, tag + "order") == 0 else f"reg = ({s1}).intersect(S)")
        build = lambda p: rr.Comp("intersect", sref, ref1(p))  # noqa: E731
    elif op == "prim":
        lines.append(f"reg = {s1}")
        build = ref1
    else:
        k2 = t.choice([k for k in kinds if (k == "box") == (k1 == "box")], tag + "k2")
        s2, ref2 = g.leaf(k2, (0.5 * t.draw(3, tag + "dx"), 0.5 * t.draw(3, tag + "dy")), z, "B")
        lines = [f"{v.name} = {v.decl}" for v in g.vars] + [f"reg = ({s1}).{op}({s2})"]
        build = lambda p: rr.Comp(op, ref1(p), ref2(p))  # noqa: E731
    place = t.draw(3, tag + "place")
    lines.append(["pt = new Point in reg", "pt = new Point on reg", "pt = new Object in reg, with width 0.1, with length 0.1, with height 0.1"][place])
    lines += ["param pos = pt.position"] + [f"param {v.name} = {v.name}" for v in g.vars]
    return {"src": "\n".join(lines) + "\n", "op": op, "kinds": k1, "vars": g.vars, "build": build, "discrete": discrete, "npts": len(sref.p) if discrete else 0, "place": ["in", "on", "object"][place]}


def run_lazy(tape, base):
    import scenic
    from scenic.core.distributions import RejectionException
    from scenic.core.errors import InvalidScenarioError

    stats, violations, steps, refused = {"workload:lazy-regions-across-scenes": 1}, [], 0, None
    progs = [make_program(tape, "P0.")] + ([make_program(tape, "P1.")] if tape.draw(2, "two-scenarios") else [])
    nscenes, seed = tape.intrange(3, 12, "scenes"), tape.draw(1 << 30, "rng-seed")
    key = hashlib.blake2b("\n---\n".join(p["src"] for p in progs).encode(), digest_size=8).hexdigest()
    dig, log = hashlib.blake2b(key.encode(), digest_size=8), []
    for p in progs:
        stats["lazy:op:" + p["op"]] = stats.get("lazy:op:" + p["op"], 0) + 1
        stats["lazy:region:" + p["kinds"]] = stats.get("lazy:region:" + p["kinds"], 0) + 1
        stats["lazy:place:" + p["place"]] = stats.get("lazy:place:" + p["place"], 0) + 1
        stats["lazy:random-parameters"] = stats.get("lazy:random-parameters", 0) + len(p["vars"])
    lib = lambda e: any(s in traceback.extract_tb(e.__traceback__)[-1].filename for s in ("/scenic/", "/shapely/", "/trimesh/"))  # noqa: E731
    for p in list(progs):  # a program the library cannot build (e.g. union of lazy polygons recurses forever) is counted and dropped
        try:
            p["scenario"] = scenic.scenarioFromString(p["src"], mode2D=False)
        except (NotImplementedError, AttributeError, TypeError, ValueError, RecursionError, InvalidScenarioError) as e:
            if not lib(e):  # InvalidScenarioError: the composed region is empty for fixed operands ("placed in empty region")
                raise
            stats[f"library-refused:{type(e).__name__}"] = stats["unjudged:library-refused"] = 1
            refused = f"{type(e).__name__}: {e}"[:200]
            progs.remove(p)
    try:
        np.random.seed(seed % (1 << 32))
        rng = base.Capped(SeededRNG(seed), 100000)  # a scene consuming more random numbers than that is a livelock, not judged
        with patched_random(rng):  # (a) consecutive scenes, scenarios interleaved
            for i in range(nscenes * len(progs)):
                p, rng.n = progs[i % len(progs)], 0
                try:
                    scene, _ = p["scenario"].generate(maxIterations=60, verbosity=0)
                except RejectionException:
                    stats["lazy:scene-rejected"] = stats.get("lazy:scene-rejected", 0) + 1
                    continue
                except base.Livelock:
                    stats["unjudged:draw-exceeded-rng-call-cap"] = 1
                    log.append((i, p["src"], "livelock"))
                    break
                par = {v.name: float(scene.params[v.name]) for v in p["vars"]}
                pos = np.array([base.xyz(scene.params["pos"])])
                log.append((i, sorted(par.items()), np.round(pos, 9).tolist()))
                steps += 1
                info = {"program": p["src"], "scene_index": i, "scenes_before_from_same_scenario": i // len(progs), "parameters_of_this_scene": par, "seed": seed}
                if not violations:
                    ref = p["build"](par)
                    violations += base.member_violations(ref, pos, "membership", info)
                    if violations and p["op"] == "intersect" and ref.A.dim == ref.B.dim == 2 and len(ref.points(20000)) < 5:
                        # two polygons at height z touching in a point / along an edge: the library's result is at z = 0
                        model = rr.Comp("intersect", base.relevel(ref.A, 0.0), base.relevel(ref.B, 0.0))
                        if not base.member_violations(model, pos, "membership", info):
                            violations[0]["detail"]["finding"] = "degenerate-polygonal-intersection-ignores-z"
        stats["lazy:scenes"] = steps
        for p in progs:  # (b) exact law per parameter value, over the whole RNG tree of generate()
            if p["discrete"] and not violations:
                violations += exact_per_value(p, base, stats, seed)
                dig.update(repr(p.get("lawdigest")).encode())
    except (NotImplementedError, AttributeError, TypeError, ValueError, ZeroDivisionError, RecursionError) as e:
        if not lib(e):
            raise
        stats[f"library-refused:{type(e).__name__}"] = stats["unjudged:library-refused"] = 1
        refused = f"{type(e).__name__}: {e}"[:200]
    dig.update(json.dumps([log, sorted(stats.items()), [v["clause"] for v in violations]], sort_keys=True).encode())
    return {"violations": violations, "digest": dig.hexdigest(), "key": key, "stats": stats, "steps": steps, "simsec": 0.0, "nontrivial": True,
            "sample": {"programs": [p["src"] for p in progs], "scenes": nscenes, "seed": seed, "first_scenes": log[:4], "library_refused": refused}}


def exact_per_value(p, base, stats, seed):
    from scenic.core.distributions import RejectionException

    def execute():
        try:
            scene, _ = p["scenario"].generate(maxIterations=1, verbosity=0)
        except RejectionException:
            return None
        return tuple(round(float(scene.params[v.name]), 9) for v in p["vars"]), base.key9(base.xyz(scene.params["pos"]))

    groups, size = {}, int(np.prod([len(v.support) for v in p["vars"]])) * p["npts"]
    if size > (250 if p["kinds"] == "box" else 2500):  # mesh containment makes every scene of a box program expensive
        stats["unjudged:exact-law-tree-too-large-or-nonexact"] = 1
        return []
    try:
        for out, pr, rng in walk_tree(execute, strata=STRATA, max_leaves=3000):
            if rng.nonexact:
                raise TreeTooLarge
            if out is not None:
                groups.setdefault(out[0], {})[out[1]] = groups.setdefault(out[0], {}).get(out[1], Fraction(0)) + pr
    except TreeTooLarge:
        stats["unjudged:exact-law-tree-too-large-or-nonexact"] = 1
        return []
    stats["judged:exact-law-per-parameter-value"] = 1
    p["lawdigest"] = sorted((k, sorted(g.items())) for k, g in groups.items())
    support = [tuple(round(float(x), 9) for x in combo) for combo in itertools.product(*(v.support for v in p["vars"]))]
    stats["lazy:parameter-values-enumerated"] = len(support)
    for vals in support[:150]:  # values whose scenes are all rejected have an empty law: their reference set must be empty too
        law = groups.get(vals, {})
        par = {v.name: x for v, x in zip(p["vars"], vals)}
        info = {"program": p["src"], "parameters_of_this_scene": par, "seed": seed,
                "note": "law of the position over every RNG outcome of scenario.generate for this parameter value"}
        v = base.law_violations(p["build"](par), law, 1 - sum(law.values(), Fraction(0)) if law else Fraction(0), info)
        if v:
            return v
    extra = sorted(set(groups) - set(support))
    if extra:
        return [{"clause": "exact-law", "detail": {"program": p["src"], "parameter_values_outside_declared_support": extra[:5], "finding": None}}]
    return []
