"""C03 -- positions drawn in/on a region lie in it and are uniformly distributed.

Two workload families, chosen by the first tape draw:
* fixed regions (13 in 21 runs): one region (primitive or A.intersect/union/difference(B)) with tape-chosen
  parameters and a batch of draws through the RNG seam.  Oracles: independent membership predicate
  (simverif.regionref), exact law by enumeration of every RNG outcome for discrete regions, seeded chi-square
  against a quasi-Monte-Carlo integral of the membership predicate for continuous ones, adversarial scripted draws.
* footprint history / off-centre meshes (4 in 21 runs, simverif.checks.c03hist): one PolygonalFootprintRegion composed
  successively with box volumes of very different height and altitude; point set / grid x mesh volumes that are not
  centred on their `position` (results of mesh booleans, centerMesh=False).
* lazy regions across scenes (4 in 21 runs, simverif.checks.c03lazy): a compiled Scenic program places a
  Point / Object in/on a region with RANDOM parameters; several consecutive scenes of the same compiled scenario
  (two scenarios interleaved) are judged against the region rebuilt from each scene's own parameter values --
  membership per scene, exact law per parameter value for point set / grid x region.
"""

import copy
import hashlib
import json
import math
import sys
import traceback
import types
from fractions import Fraction

import numpy as np

from .. import regionref as rr
from ..seams import ScriptedRNG, SeededRNG, TreeTooLarge, halton, patched_random, walk_tree

ID, LEVEL, CHUNK = "C03", "exploration", 4
TECHNIQUE = ("RNG-seam simulation of region samplers: exact enumeration for discrete regions, seeded "
             "chi-square vs independent membership/measure oracle for continuous ones")
BUDGET = {"quick": (400, 50), "thorough": (40000, 1150)}
RULE = (
    "one run = one region drawn from the tape: a primitive (box, spheroid, extruded non-convex / two-body / holed mesh volume "
    "or its surface, voxelised mesh, polygon with holes / multipolygon, circle, sector, rectangle, polyline, 3D path, point set, "
    "grid; random size, offset, rotation, height) or a pairwise intersect/union/difference with a second region placed to "
    "overlap it (via A.op(B), or 1 in 4 via the generic Intersection/Union/DifferenceRegion classes); N seeded draws + scripted "
    "adversarial draws (+ the exhaustive RNG tree for discrete regions); OR (4 in 21 runs) one or two compiled Scenic programs "
    "placing a Point/Object in/on a region whose heading / position / size / radius / height / angle are Range, Uniform or "
    "DiscreteRange values (primitive, point set or grid x region, intersect/union/difference), 3-12 consecutive scenes per "
    "scenario, the two scenarios interleaved, + the whole RNG tree of "
    "scenario.generate for discrete programs; OR (4 in 21 runs) one footprint region composed in turn with 2-4 boxes of very different "
    "height/altitude, or a point set / grid far from the origin x an off-centre mesh volume (boolean result, centerMesh=False); distinct = digest "
    "of the region description / program text; non-trivial = composition, or rotated, or at non-zero height, or a lazy program")
COMPONENTS = {
    "real": ["scenic.core.regions samplers (uniformPointInner of every class, generic intersection/union/difference samplers, "
             "point-set intersection sampler)", "Region.uniformPointIn + Samplable.sample/sampleAll",
             "scenic.core.geometry triangulation", "trimesh sampling / boolean / voxel code", "shapely set operations",
             "lazy workload: scenic parser/compiler (scenarioFromString), pruning, Scenario.generate rejection loop, "
             "lazy region construction + sampleGiven of region classes and of Intersection/Union/DifferenceRegion across scenes"],
    "stub": ["RNG back end behind random.* (seeded Mersenne Twister, branching enumerator, scripted sequences)",
             "numpy.random global state (seeded from the tape)"]}
ASSUMPTIONS = [
    "membership is judged with a margin (1e-6 x size, plus the sagitta of the library's polygon / icosphere approximation when a "
    "circle, sector or spheroid is subtracted): boundary noise is never reported",
    "reference cell probabilities come from Halton integration of the reference predicate; their binomial error bound inflates "
    "the chi-square variance; alarm only at p < 1e-9, or for a cell with expected count >= 30 that is never hit",
    "a RejectionException is a rejected scene: the law is judged conditionally on acceptance",
    "GridRegion is only a sampled operand (intersect, left side of difference): its containsPoint has documented nearest-cell "
    "semantics that differ from its sampler; of the grid's own containsPoint only 'accepts every point the grid's sampler draws' is required",
    "VoxelRegion is defined by its voxel centres + pitch (construction data); view regions and pruned regions are not generated",
    "compositions the library cannot build or sample (NotImplementedError, missing circumcircle, undefined sampling, "
    "ZeroDivisionError / RecursionError inside the library) are counted as refused, not judged",
    "a horizontal planar region lying exactly (1e-9) in the plane of a flat box / prism mesh face only touches it within numerical "
    "tolerance (the library's exact z tests are then decided by rounding noise): membership is judged, uniformity and coverage are not",
    "a violation is attributed to a known-finding key only if the same draws are clean under that defect's alternative reference set",
    "lazy workload: the region of a scene is rebuilt from the parameter values the scene reports (global params); positions of "
    "continuous lazy regions are judged for membership only (one draw per scene); programs the library cannot compile "
    "(union of lazy polygons recurses, empty fixed region) are counted as refused",
]

TIER = "quick"
NDRAW = {"quick": (3000, 1000), "thorough": (30000, 6000)}
MREF = {"quick": 250000, "thorough": 1000000}
ANG = [0.0, math.pi / 2, 0.3, -1.1, 2.5, math.pi, math.pi / 4, -2.0]
KINDS = ["rect", "circle", "box", "polygon", "sector", "pointset", "polyline", "spheroid", "meshvol", "path", "meshsurf", "grid", "voxel"]
DIMCLASS = [("box", "spheroid", "meshvol", "voxel"), ("rect", "circle", "sector", "polygon"), ("meshsurf",), ("polyline", "path"), ("pointset",)]
SHAPES = {  # parts: (shell, [holes]) in a 3x3-ish local frame
    "L": [([(0, 0), (2, 0), (2, 1), (1, 1), (1, 2), (0, 2)], [])],
    "ring": [([(0, 0), (3, 0), (3, 3), (0, 3)], [[(1, 1), (2, 1), (2, 2), (1, 2)]])],
    "two": [([(0, 0), (1, 0), (1, 1), (0, 1)], []), ([(2, 0), (3, 0), (3, 1.5), (2, 1.5)], [])],
    "holed+1": [([(0, 0), (2, 0), (2, 2), (0, 2)], [[(0.5, 0.5), (1.5, 0.5), (1, 1.5)]]), ([(2.5, 0), (3, 0), (3, 3), (2.5, 3)], [])],
}


def set_tier(tier):
    global TIER
    TIER = tier


def prepare():
    import scenic.core.regions  # noqa: F401
    import scipy.stats  # noqa: F401
    assert abs(rr.vdc([7], 3)[0] - halton(7, 3)) < 1e-15
    rr.ico()


def classify(v):
    return v.get("detail", {}).get("finding")


# generator: tape -> (scenic region, reference set)
def zig(v):  # 0, 1, -1, 2, -2, ...
    return ((v + 1) // 2) * (1 if v % 2 else -1)


def rings_of(parts):
    return [np.array(r, float) for shell, holes in parts for r in [shell] + holes]


def overlapping(chains):
    """Do two segments share a piece of positive length?"""
    seg = [(np.array(a), np.array(b) - np.array(a)) for ch in chains for a, b in zip(ch, ch[1:])]
    for i, (a, u) in enumerate(seg):
        for c, w in seg[:i]:
            if max(np.linalg.norm(np.cross(u, c - a)), np.linalg.norm(np.cross(u, w))) < 1e-9:
                s, t = sorted(((c - a) @ u / (u @ u), (c + w - a) @ u / (u @ u)))
                if min(t, 1) - max(s, 0) > 1e-9:
                    return True
    return False


def make_leaf(t, kind, near, tag):
    import scenic.core.regions as R
    import shapely.geometry as sg
    import trimesh
    from scenic.core.vectors import Orientation, Vector
    size = 1 + 0.75 * t.draw(6, tag + "size")
    planar = kind in ("rect", "circle", "sector", "polygon", "pointset")
    if near is None:
        c = [1.5 * zig(t.draw(7, tag + "x")), 1.5 * zig(t.draw(7, tag + "y")), 1.25 * zig(t.draw(5, tag + "z"))]
    else:
        nc, ns, nk = near
        if kind == nk == "pointset" and t.draw(4, tag + "samelattice"):
            size, ns = ns, 0.0  # same lattice as A: the two point sets share members
        c = [nc[0] + 0.35 * ns * zig(t.draw(5, tag + "dx")), nc[1] + 0.35 * ns * zig(t.draw(5, tag + "dy")),
             nc[2] + (0.5 if t.draw(4, tag + "dz") == 3 else 0.0 if planar else 0.3 * ns * zig(t.draw(3, tag + "dz3")))]
    yaw = ANG[t.draw(8, tag + "yaw")]
    ypr = (yaw, ANG[t.draw(8, tag + "pitch")] if t.draw(2, tag + "tilt") else 0.0,
           ANG[t.draw(8, tag + "roll")] if t.draw(3, tag + "tilt2") == 2 else 0.0)
    tilted = any(ypr) and kind not in ("polyline", "pointset", "grid")
    if kind in ("polyline", "grid"):
        c[2] = 0.0

    if kind == "box" or kind == "spheroid":
        dims = (size, 1 + 0.5 * t.draw(6, tag + "l"), 1 + 0.5 * t.draw(6, tag + "h"))
        cls, rcls = (R.BoxRegion, rr.BoxRef) if kind == "box" else (R.SpheroidRegion, rr.EllRef)
        reg = cls(dimensions=dims, position=Vector(*c), rotation=Orientation.fromEuler(*ypr))
        ref = rcls(dims, c, ypr)
    elif kind in ("meshvol", "meshsurf", "voxel"):
        shape = t.choice(sorted(SHAPES), tag + "shape")
        parts, h = SHAPES[shape], 0.5 + 0.5 * t.draw(4, tag + "h")
        mesh = trimesh.util.concatenate([trimesh.creation.extrude_polygon(sg.Polygon(s, hs), h) for s, hs in parts])
        raw = rings_of(parts)
        lo, hi = np.concatenate(raw).min(axis=0), np.concatenate(raw).max(axis=0)
        dims = (size, 1 + 0.5 * t.draw(6, tag + "l"), 0.5 + 0.5 * t.draw(4, tag + "dh")) if t.draw(2, tag + "scaled") else None
        sc = np.array(dims) / np.append(hi - lo, h) if dims else np.ones(3)
        if kind == "voxel":
            ypr, tilted = (0.0, 0.0, 0.0), False
        rings = [(r - (lo + hi) / 2) * sc[:2] for r in raw]
        desc = {"kind": {"meshvol": "MeshVolumeRegion", "meshsurf": "MeshSurfaceRegion", "voxel": "VoxelRegion"}[kind],
                "mesh": f"extrusion of shape {shape!r} by {h}", "dimensions": dims, "position": c, "yaw_pitch_roll": list(ypr)}
        ref = rr.PolyRef(rings, c, h * sc[2], ypr, surface=(kind == "meshsurf"), kind=kind, desc=desc)
        cls = R.MeshSurfaceRegion if kind == "meshsurf" else R.MeshVolumeRegion
        reg = cls(mesh, dimensions=dims, position=Vector(*c), rotation=Orientation.fromEuler(*ypr))
        if kind == "voxel":
            pitch = float(max(reg.mesh.extents)) / (6 + 2 * t.draw(3, tag + "pitch"))
            reg = reg.voxelized(pitch)
            desc["pitch"] = pitch
            solid, ref = ref, rr.VoxRef(np.array(reg.voxelGrid.points), pitch, desc)
            ref.outer = (solid, math.sqrt(3) * pitch * 1.01 + solid.tol)
    elif kind == "polygon":
        shape = t.choice(sorted(SHAPES), tag + "shape")
        s, cy, sy = size / 3, math.cos(yaw), math.sin(yaw)
        f = lambda p: (c[0] + s * (p[0] * cy - p[1] * sy), c[1] + s * (p[0] * sy + p[1] * cy))  # noqa: E731
        parts = [([f(p) for p in sh], [[f(p) for p in h] for h in hs]) for sh, hs in SHAPES[shape]]
        polys = [sg.Polygon(sh, hs) for sh, hs in parts]
        reg = R.PolygonalRegion(polygon=polys[0] if len(polys) == 1 else sg.MultiPolygon(polys), z=c[2])
        desc = {"kind": "PolygonalRegion", "shape": shape, "parts": parts, "z": c[2]}
        ref = rr.PolyRef(rings_of(parts), (0.0, 0.0, c[2]), kind="polygon", desc=desc)
        tilted = bool(yaw)
    elif kind == "circle":
        reg, ref, tilted = R.CircularRegion(Vector(*c), size), rr.DiscRef(c, size), False
    elif kind == "sector":
        angle = [math.pi / 2, math.pi / 3, math.pi, 4.0, 0.4, 5.5][t.draw(6, tag + "angle")]
        reg, ref, tilted = R.SectorRegion(Vector(*c), size, yaw, angle), rr.DiscRef(c, size, yaw, angle), bool(yaw)
    elif kind == "rect":
        w, l = size, 1 + 0.5 * t.draw(6, tag + "l")
        reg, ref, tilted = R.RectangularRegion(Vector(*c), yaw, w, l), rr.RectRef(c, yaw, w, l), bool(yaw)
    elif kind in ("polyline", "path"):
        chains = []
        for k in range(1 + (t.draw(4, tag + "multi") == 3)):
            pts = []
            for i in range(2 + t.draw(4, tag + "nv")):
                p = (c[0] + 0.4 * size * (zig(t.draw(7, f"{tag}px{i}")) + 3 * k), c[1] + 0.4 * size * zig(t.draw(7, f"{tag}py{i}")),
                     c[2] + (0.4 * size * zig(t.draw(5, f"{tag}pz{i}")) if kind == "path" else 0.0))
                if i == 0 and p in [q for ch in chains for q in ch]:
                    p = (p[0] + 0.1 * size, p[1], p[2])
                if p not in pts:
                    pts.append(p)
            if len(pts) < 2:
                pts.append((pts[0][0] + size, pts[0][1] + 0.5 * size, pts[0][2]))
            chains.append(pts)
        while overlapping(chains):  # a piece covered twice has no agreed measure (shapely's set operations merge it)
            chains = chains[:-1] if len(chains[-1]) == 2 else chains[:-1] + [chains[-1][:-1]]
        if kind == "polyline":
            ls = [sg.LineString([p[:2] for p in ch]) for ch in chains]
            reg = R.PolylineRegion(points=chains[0]) if len(ls) == 1 else R.PolylineRegion(polyline=sg.MultiLineString(ls))
        else:
            reg = R.PathRegion(points=chains[0]) if len(chains) == 1 else R.PathRegion(polylines=chains)
        ref = rr.LineRef(chains, kind)
        tilted = kind == "path"
    elif kind == "pointset":
        mask, zmask = t.draw(1 << 16, tag + "mask") | 0x21, t.draw(1 << 16, tag + "zmask")
        pts = [(c[0] + 0.4 * size * (i % 4 - 1.5), c[1] + 0.4 * size * (i // 4 - 1.5), c[2] + (0.4 * size if zmask >> i & 1 else 0.0))
               for i in range(16) if mask >> i & 1]
        reg, ref = R.PointSetRegion("ps", pts), rr.PtsRef(pts)
    elif kind == "grid":
        ny, nx = 2 + t.draw(3, tag + "ny"), 2 + t.draw(3, tag + "nx")
        mask = t.draw(1 << (nx * ny), tag + "mask") & ~1
        grid = [[mask >> (y * nx + x) & 1 for x in range(nx)] for y in range(ny)]
        # clearly non-square cells, taller or wider by the parity of the mask (no extra tape draw): a mix-up of the two
        # pitches must move an index by at least one cell within the 2..4 rows / columns
        ax, ay = (0.4 * size, 0.22 * size + 0.03) if mask & 2 else (0.22 * size + 0.03, 0.4 * size)
        bx, by = c[0] - 0.5 * size, c[1] - 0.5 * size
        reg = R.GridRegion("grid", grid, ax, ay, bx, by)
        pts = [(ax * x + bx, ay * y + by, 0.0) for y in range(ny) for x in range(nx) if not grid[y][x]]
        ref = rr.PtsRef(pts, "grid", {"kind": "GridRegion", "grid": grid, "Ax": ax, "Ay": ay, "Bx": bx, "By": by})
    return types.SimpleNamespace(reg=reg, ref=ref, center=c, size=size, tilted=tilted)


# drawing through the seam
xyz = lambda p: (float(p.x), float(p.y), float(p.z))  # noqa: E731


Livelock = type("Livelock", (Exception,), {})


class Capped:
    """Seam wrapper: a draw consuming more than `cap` random numbers is abandoned (u = 0.0 can select a
    zero-area triangle, on which the polygon sampler loops forever: probability zero, not judged)."""

    def __init__(self, impl, cap):
        self.impl, self.cap, self.n = impl, cap, 0

    def __getattr__(self, name):
        f = getattr(self.impl, name)

        def g(*a, **k):
            self.n += 1
            if self.n > self.cap:
                raise Livelock(name)
            return f(*a, **k)
        return g


def draw_batch(reg, n, rng, npseed, via, stats, max_consec=400, cap=200000):
    """Up to n accepted draws; gives up after max_consec rejections in a row before the first success
    (8x that later) or 3n rejections.  Rejections are rejected scenes, not outcomes."""
    import scenic.core.regions as R
    from scenic.core.distributions import RejectionException, Samplable
    np.random.seed(npseed % (1 << 32))
    dist = R.Region.uniformPointIn(reg) if via else None
    one = [reg.uniformPointInner, lambda: dist.sample(), lambda: Samplable.sampleAll([dist])[dist]][via]
    pts, rej, consec, rng = [], 0, 0, Capped(rng, cap)
    with patched_random(rng):
        while len(pts) < n and consec <= (max_consec * 8 if pts else max_consec) and rej <= 3 * n + max_consec:
            rng.n = 0
            try:
                pts.append(xyz(one()))
                consec = 0
            except RejectionException:
                rej += 1
                consec += 1
            except Livelock:
                stats["unjudged:draw-exceeded-rng-call-cap"] = 1
                break
    return np.array(pts, float).reshape(-1, 3), rej


def member_violations(ref, P, clause, info):
    """Points outside by more than the margin; 'membership-z' when only the height is wrong."""
    if not len(P):
        return []
    s = ref.sd(P)
    bad = s > ref.tol
    if hasattr(ref, "outer"):  # voxels: also within the mesh dilated by the voxel diagonal
        bad |= ref.outer[0].sd(P) > ref.outer[1]
    if not bad.any():
        return []
    i = int(np.nonzero(bad)[0][0])
    p = P[i]
    zonly = [z for z in ref.zs if ref.sd(np.array([[p[0], p[1], z]]))[0] <= ref.tol]
    d = dict(info, point=[float(x) for x in p], outside_by=float(s[i]), margin=ref.tol, n_bad=int(bad.sum()), n=len(P), finding=None)
    if zonly and clause == "membership":
        clause, d["member_if_z_were"] = "membership-z", zonly[0]
    return [{"clause": clause, "detail": d}]


# oracle (b): exact law of discrete regions
key9 = lambda p: tuple(round(float(x), 9) + 0.0 for x in p)  # noqa: E731
leaves_of = lambda ref: leaves_of(ref.A) + leaves_of(ref.B) if isinstance(ref, rr.Comp) else [ref]  # noqa: E731


def enumerate_law(reg, stats):
    """Every RNG outcome of one draw, with exact probabilities: ({point: P}, P(rejected)) or None."""
    from scenic.core.distributions import RejectionException
    def execute():
        try:
            return key9(xyz(reg.uniformPointInner()))
        except RejectionException:
            return None

    law, prej = {}, Fraction(0)
    try:
        for out, pr, rng in walk_tree(execute, strata=12, max_leaves=4000):  # strata 12: random() < 1 - 1/k exact for k <= 4
            if rng.nonexact:
                raise TreeTooLarge
            if out is None:
                prej += pr
            else:
                law[out] = law.get(out, Fraction(0)) + pr
    except TreeTooLarge:
        stats["unjudged:exact-law-tree-too-large-or-nonexact"] = 1
        return None
    stats["judged:exact-law"] = 1
    return law, prej


def law_violations(ref, law, prej, info):
    """Uniform on the composed set: every member reachable, nothing else, 1/|set| each.  Points within
    the margin of a continuous operand's boundary may be in or out."""
    cand = np.array(sorted({key9(p) for lf in leaves_of(ref) if lf.dim == 0 for p in lf.p}))
    s = ref.sd(cand)
    amb = np.zeros(len(cand), bool)
    for lf in leaves_of(ref):
        if lf.dim > 0:
            amb |= np.abs(lf.sd(cand)) <= lf.tol + lf.slack
    core = {key9(p) for p, si, a in zip(cand, s, amb) if si <= ref.tol and not a}
    maybe = {key9(p) for p, a in zip(cand, amb) if a}
    missing, extra = sorted(core - set(law)), sorted(set(law) - core - maybe)
    cond = {k: v / (1 - prej) for k, v in law.items()}
    if not missing and not extra and all(v == Fraction(1, len(law)) for v in cond.values()):
        return []
    d = dict(info, expected_members=sorted(core), boundary_ambiguous=sorted(maybe), unreachable_members=missing,
             non_members_produced=extra, law={str(list(k)): str(v) for k, v in sorted(cond.items())}, p_reject=str(prej), finding=None)
    return [{"clause": "exact-law", "detail": d}]


# oracle (c): uniformity of continuous regions
def uniformity(ref, P, info, stats, extra):
    import scipy.stats
    Rp = ref.points(MREF[TIER])
    if len(Rp) < 1500:
        stats["unjudged:reference-set-too-small"] = 1
        return []
    sel = np.zeros(len(Rp), bool)
    sel[::11] = True  # 11 is coprime to every Halton base in use
    cells = rr.KDCells(Rp[sel], depth=5 if len(P) >= 2500 else 4 if len(P) >= 600 else 3)
    est = Rp[~sel]
    q = np.bincount(cells.index(est), minlength=cells.ncell) / len(est)
    se = np.sqrt(q * (1 - q) / len(est))
    N = len(P)
    obs = np.bincount(cells.index(P), minlength=cells.ncell)
    E = N * q
    big = E >= 30
    if big.sum() < 2:
        stats["unjudged:too-few-cells"] = 1
        return []
    infl = 1 + N / len(est)  # var(O - N q_hat) <= N q (1 + N / M)
    stat, df = float((((obs - E) ** 2)[big] / (E[big] * infl)).sum()), int(big.sum())
    p = float(scipy.stats.chi2.sf(stat, df))
    stats["judged:uniformity"] = 1
    extra.update(chi2=round(stat, 3), df=df, p_value=p, N=N, reference_points=len(est))
    if p < 1e-3:
        stats["chi2:p<1e-3"] = 1
    table = [[int(k), round(float(E[k]), 2), int(obs[k])] for k in range(cells.ncell)]
    base = dict(info, N=N, reference_points=len(est), chi2=round(stat, 3), df=df, p_value=p, variance_inflation=round(infl, 4),
                cell_table_cell_expected_observed=table, finding=None)
    v = []
    if p < 1e-9:
        v.append({"clause": "uniformity-chi2", "detail": base})
    never = [int(k) for k in range(cells.ncell) if obs[k] == 0 and N * (q[k] - 6 * se[k]) >= 30]
    if never:
        there = [[float(x) for x in est[cells.index(est) == k][0]] for k in never[:3]]
        v.append({"clause": "cell-never-hit", "detail": dict(base, cells_never_hit=never, example_points_there=there)})
    return v


# defect models: alternative reference sets describing one specific library defect each.  A violation
# is attributed to a finding only if the same observations are clean under that model.
def relevel(ref, z=None):
    """Copy of a planar leaf at height z, or with its height ignored (z=None)."""
    if ref.dim != 2 or getattr(ref, "hz", 0):
        return ref
    r = copy.copy(ref)
    r.zfree, a = z is None, "c" if hasattr(r, "c") else "pos"
    if z is not None:
        setattr(r, a, np.array([getattr(r, a)[0], getattr(r, a)[1], z]))
        r.zs = [z]
    return r


def kite(ref):
    """The polygon SectorRegion builds for itself: circle & quadrilateral mask (centre, two arc ends, the point
    2r ahead).  Beyond 120 degrees the mask's edges cut through the disc, so the polygon is not the sector."""
    if not (isinstance(ref, rr.DiscRef) and ref.ang and ref.ang > math.tau / 3 + 1e-9):
        return ref
    d = lambda r, h: (ref.c[0] - r * math.sin(h), ref.c[1] + r * math.cos(h))  # noqa: E731  (offsetRadially)
    quad = [tuple(ref.c[:2]), d(ref.r, ref.hd + ref.ang / 2), d(2 * ref.r, ref.hd), d(ref.r, ref.hd - ref.ang / 2)]
    return rr.Comp("intersect", rr.DiscRef(ref.c, ref.r), rr.PolyRef([quad], (0.0, 0.0, ref.c[2]), desc={"kind": "sector-mask", "ring": quad}))


def defect_models(A, B, op, reg):
    import scenic.core.regions as R
    out, tr = [], []
    if not op:
        return out
    # the generic classes sample their operands directly: polygon approximations play no role there
    shapely_path = not isinstance(reg, (R.IntersectionRegion, R.UnionRegion, R.DifferenceRegion))
    flat = all(R.toPolygon(x.reg) is not None for x in (A, B))
    if shapely_path and flat and any(getattr(x.reg, "z", 0) != 0 for x in (A, B)):
        # after fix 338cec73 only a contact of measure zero (shapely Point / LineString result) still lands at z = 0
        degenerate = isinstance(reg, (R.PointSetRegion, R.PolylineRegion)) and op == "intersect" and A.ref.dim == B.ref.dim == 2
        tr.append(("degenerate-polygonal-intersection-ignores-z" if degenerate else "polygonal-composition-ignores-z", lambda r: relevel(r, 0.0)))
    if shapely_path and any(kite(x.ref) is not x.ref for x in (A, B)):
        tr.append(("sector-polygon-mask-cuts-arc", kite))
    for keys in ([t] for t in tr) if len(tr) < 2 else ([tr[0]], [tr[1]], tr):
        a, b = A.ref, B.ref
        for _, f in keys:
            a, b = f(a), f(b)
        out.append(("+".join(k for k, _ in keys), rr.Comp(op, a, b)))
    if isinstance(reg, R.IntersectionRegion) and reg.sampler is not None:  # PointSetRegion.intersect's own sampler
        ps, o = (A, B) if reg.regions[0] is A.reg else (B, A)
        ctr, rad = o.reg.circumcircle
        ball = rr.BallRef(xyz(ctr), abs(rad))  # a negative radius (sector beyond pi) acts as |r| in the k-d tree query
        out.append(("pointset-intersection-circumcircle-too-small", rr.Comp("intersect", ps.ref, rr.Comp("intersect", ball, o.ref))))
        if type(o.reg).containsPoint is R.PolygonalRegion.containsPoint:
            out.append(("pointset-intersection-ignores-height",
                        rr.Comp("intersect", ps.ref, rr.Comp("intersect", ball, relevel(o.ref)))))
    if isinstance(reg, R.UnionRegion) and A.ref.dim == B.ref.dim and any(kite(x.ref) is not x.ref for x in (A, B)):
        u = rr.Comp("union", A.ref, B.ref)  # generic union: true sectors are sampled, but chosen with weight = area of the polygon
        u.weights = tuple(kite(x.ref).measure for x in (A, B))
        u.desc = dict(u.desc, operand_weights=u.weights)
        out.append(("sector-polygon-mask-cuts-arc", u))
    if isinstance(reg, R.IntersectionRegion) and reg.sampler is None and any(isinstance(x.reg, R.PolylineRegion) for x in (A, B)):
        # generic intersection: a sample must also pass its own region's containsPoint, which is exact for polylines
        out.append(("generic-intersection-rejects-inexact-polyline-samples", rr.Comp("intersect", *(exact_line(x) for x in (A, B)))))
    return out


def exact_line(x):
    import scenic.core.regions as R
    import shapely
    if not isinstance(x.reg, R.PolylineRegion):
        return x.ref
    r = copy.copy(x.ref)
    r.accept = lambda p: shapely.intersects_xy(x.reg.lineString, p[:, 0], p[:, 1])
    return r


def run(tape):
    import scenic.core.regions as R
    N, Nslow = NDRAW[TIER]
    stats, violations, extra = {}, [], {}
    # 0-3 primitive, 4-6 intersect, 7-9 union, 10-12 difference, 13-16 lazy regions across scenes, 17-20 footprint history / off-centre meshes
    w = tape.draw(21, "op")
    if w >= 13:
        from . import c03hist, c03lazy
        return (c03hist.run_history if w >= 17 else c03lazy.run_lazy)(tape, sys.modules[__name__])
    op = [None, "intersect", "union", "difference"][(w - 1) // 3 if w > 3 else 0]
    more = ["pointset"] * 3 if op == "intersect" else []  # the point-set intersection sampler is a mechanism of its own
    kinds = [tape.choice([k for k in KINDS if k != "grid" or op != "union"] + more, "kindA")]
    A, B = make_leaf(tape, kinds[0], None, "A."), None
    if op:
        menu = [k for k in KINDS if k != "grid" or (op == "intersect" and kinds[0] not in ("pointset", "grid"))]
        if kinds[0] == "grid":  # a grid must be the operand that is sampled, never the one whose containsPoint decides
            menu, more = [k for k in menu if k != "pointset"], []
        if op == "union" and tape.draw(3, "same-dimension"):  # unions of equal dimension are the ones with a measure to get wrong
            menu = [k for k in menu if any(k in c and kinds[0] in c for c in DIMCLASS)]
        kinds.append(tape.choice(menu + more, "kindB"))
        B = make_leaf(tape, kinds[1], (A.center, A.size, kinds[0]), "B.")
    generic = bool(op) and tape.draw(4, "generic") == 3
    via = tape.weighted([5, 2, 1], "via")
    seed = tape.draw(1 << 30, "rng-seed")
    h0 = tape.draw(64, "halton-offset")
    ref = rr.Comp(op, A.ref, B.ref) if op else A.ref
    for k in kinds:
        stats["kind:" + k] = stats.get("kind:" + k, 0) + 1
    stats["op:" + (op or "primitive")] = 1
    stats["via:" + ["uniformPointInner", "uniformPointIn.sample", "Samplable.sampleAll"][via]] = 1
    key = hashlib.blake2b(json.dumps(ref.desc, sort_keys=True, default=repr).encode(), digest_size=8).hexdigest()
    dig = hashlib.blake2b(key.encode(), digest_size=8)
    info = {"region": ref.desc, "seed": seed, "drawn_via": via, "generic_composition_class": generic}
    steps, rtype = 0, None
    try:
        if generic:  # what the library falls back to for random operands: the generic samplers
            stats["generic-composition-class"] = 1
            reg = {"intersect": R.IntersectionRegion, "union": R.UnionRegion, "difference": R.DifferenceRegion}[op](A.reg, B.reg)
        else:
            reg = getattr(A.reg, op)(B.reg) if op else A.reg
        rtype = type(reg).__name__
        stats["result:" + rtype] = 1
        if isinstance(reg, R.EmptyRegion):
            stats["empty-result:reference-" + ("also-empty" if len(ref.points(20000)) < 20 else "nonempty-unjudged")] = 1
            raise StopIteration
        slow = isinstance(reg, R.MeshVolumeRegion) or (op and any(isinstance(x.reg, R.MeshRegion) for x in (A, B)))
        n = 200 if ref.dim == 0 else (600 if generic else Nslow) if slow else N
        law = enumerate_law(reg, stats) if ref.dim == 0 else None
        P, rej = draw_batch(reg, n, SeededRNG(seed), seed, via, stats)
        scripts = [[0.0] * 40, [1 - 2.0 ** -53] * 40, [0.5] * 40, [0.0, 1 - 2.0 ** -53] * 20,
                   [halton(h0 + i // 2 + 1, 2 + i % 2) for i in range(24)], [halton(h0 + i + 1, 5) for i in range(12)]]
        S = np.concatenate([draw_batch(reg, 3, ScriptedRNG(sc, seed=seed), seed + 1, via, stats, max_consec=100, cap=3000)[0] for sc in scripts])
        stats["draws"], stats["rejections"], stats["scripted-draws"], steps = len(P), rej, len(S), len(P) + len(S)
        dig.update(np.round(P, 9).tobytes() + np.round(S, 9).tobytes() + repr(sorted(law[0].items()) if law else None).encode())
        if not len(P):
            stats["unjudged:sampler-always-rejects"] = 1

        coplanar = bool(op) and rr.coplanar_contact(A.ref, B.ref)

        def judge(rf, st, ex):
            v = law_violations(rf, law[0], law[1], info) if law else member_violations(rf, P, "membership", info)
            if rf.dim > 0 and len(P) and not v:
                if coplanar:  # membership is still judged; uniformity / coverage of a mere contact is not
                    st["unjudged:coplanar-contact"] = 1
                elif len(P) >= min(n, 600):
                    v += uniformity(rf, P, info, st, ex)
                else:
                    st["unjudged:too-few-accepted-draws"] = 1
            if not any(x["clause"].startswith("membership") for x in v):
                v += member_violations(rf, S, "scripted-membership", info)
            return v

        violations = judge(ref, stats, extra)
        need_chi2 = any(v["clause"] in ("uniformity-chi2", "cell-never-hit") for v in violations)
        for fkey, mref in defect_models(A, B, op, reg) if violations else []:
            st = {}
            if not judge(mref, st, {}) and (st.get("judged:uniformity") or not need_chi2):
                for v in violations:
                    v["detail"].update(finding=fkey, observations_consistent_with_model=mref.desc)
                break
        if (violations and all(v["detail"].get("finding") is None and v["clause"] in ("uniformity-chi2", "cell-never-hit") for v in violations)
                and isinstance(reg, R.IntersectionRegion) and reg.sampler is None):
            # same known defect, seen through its mechanism: which interpolated polyline points pass the polyline's exact
            # containsPoint is rounding noise (the model's own reference points need not round the same way), so when a
            # sizeable share of the polyline operand's own draws fails its own containsPoint, uniformity cannot be judged
            for x in (A, B):
                if isinstance(x.reg, R.PolylineRegion):
                    Q = draw_batch(x.reg, 300, SeededRNG(seed), seed, 0, {})[0]
                    inexact = sum(not x.reg.containsPoint(tuple(float(c) for c in q)) for q in Q)
                    if len(Q) and inexact >= 0.05 * len(Q):
                        for v in violations:
                            v["detail"].update(finding="generic-intersection-rejects-inexact-polyline-samples",
                                               polyline_draws_failing_own_containsPoint=[int(inexact), len(Q)])
                        break
        grid = reg if isinstance(reg, R.GridRegion) else A.reg if op in ("intersect", "difference") else None
        if isinstance(grid, R.GridRegion) and len(P):
            # a point drawn from the grid (or from grid ∩ B / grid - B) is an exact free-cell centre, so the grid's own
            # nearest-cell containsPoint must accept it
            own = [p for p in np.concatenate([P, S]) if not grid.containsPoint(tuple(float(x) for x in p))]
            stats["judged:grid-self-containment"] = 1
            if own:
                violations.append({"clause": "membership-own-containsPoint", "detail": dict(
                    info, point=[float(x) for x in own[0]], n_bad=len(own), n=len(P) + len(S), finding=None)})
    except StopIteration:
        pass
    except (NotImplementedError, R.UndefinedSamplingException, AttributeError, TypeError, ValueError, ZeroDivisionError, RecursionError) as e:
        # the library refuses (or crashes on) this composition: no point was drawn, counted, never a violation
        tb = traceback.extract_tb(e.__traceback__)[-1]
        if not any(s in tb.filename for s in ("/scenic/", "/shapely/", "/trimesh/")):
            raise
        stats[f"library-refused:{type(e).__name__}"] = 1
        stats["unjudged:library-refused"] = 1
        dig.update(type(e).__name__.encode())
    for v in violations:
        dig.update((v["clause"] + str(v["detail"].get("finding"))).encode())
    dig.update(json.dumps(sorted(stats.items())).encode())
    return {"violations": violations, "digest": dig.hexdigest(), "key": key, "stats": stats, "steps": steps, "simsec": 0.0,
            "nontrivial": bool(op) or A.tilted or A.center[2] != 0,
            "sample": {"region": ref.desc, "result_type": rtype, "seed": seed, "drawn_via": via, "generic": generic, **extra}}
