"""C12 — simulation steps run in the documented order and stop at the documented step.

Workload: DYN programs without user try-interrupt / guards; every construct logs through
userlib.ev and SimWorld logs every interface call.  Schedule space: the agent order of
every step (chosen by the simulator), the truth tables of all conditions, the time step
length.  Oracle: event-log / action-log / records / termination refinement against the
reference model of the documented ten-step procedure (simverif.dyn.Ref).
"""

from . import dyncommon

ID = "C12"
LEVEL = "exploration"
TECHNIQUE = "deterministic simulation: seeded schedules/truth tables vs executable reference model of the step procedure"
BUDGET = {"quick": (6000, 60), "thorough": (600000, 1500)}
CHUNK = 10
RULE = (
    "one run = one DYN program (seeded: nested scenarios with setup/compose, 1-3 agents, sub-behaviours, "
    "monitors, records, every termination construct, durations in steps and seconds, timestep from "
    "{1,0.5,0.1,0.3,0.25,2}) compiled by the real front end and simulated under SimWorld for 1-6 "
    "environments (truth tables + per-step agent schedule from the tape); distinct = distinct digest of "
    "(program text, tables, schedule, outcome); non-trivial = some environment ran >= 2 steps "
    "and the program has >= 2 coroutines (agents+monitors+compose blocks)"
)
COMPONENTS = dyncommon.COMPONENTS
ASSUMPTIONS = dyncommon.ASSUMPTIONS + [
    "LTL requirements in this check are restricted to always/eventually/until over atoms (C11 covers the rest)",
    "no user try-interrupt and no guards in this fragment (C13 covers them)",
]

FEAT = dict(w_try=0, p_guards=0, p_grej=0)
BUG_MODELS = ("dynreq",)

prepare = dyncommon.prepare
classify = dyncommon.classify


def run(tape):
    return dyncommon.run_dyn(tape, FEAT, BUG_MODELS)


def run_case(case):
    return dyncommon.run_dyn_case(case, BUG_MODELS)


shrink_case = dyncommon.shrink_case
