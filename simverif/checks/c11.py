"""C11 — temporal requirements accept exactly the traces satisfying the formula.

Workload: DYN programs whose scenarios carry `require <LTL formula>` (depth <= 3 over
always / eventually / next / until / implies / and / or / not, <= 3 atoms) in three
placements -- top level, setup block of a sub-scenario invoked with `do`, executed
dynamically inside a compose block -- and whose scenarios end by every documented route
(step limit, terminate after, terminate when, compose finishing, terminate from a
behavior/monitor, parent ending).  The truth of atom k at step t is table k at step t,
supplied by the simulator.  Oracle: own finite-trace evaluator (strong next / strong until)
over the steps at which the scenario was stepped; early rejection is *required* for
`always <non-temporal>` false now, *permitted* only when no continuation can satisfy the
formula (exact, by backward fixpoint), forbidden otherwise.
"""

from . import dyncommon

ID = "C11"
LEVEL = "exploration"
TECHNIQUE = "deterministic simulation: simulator-owned truth tables per step vs independent finite-trace LTL evaluator + exact bad-prefix test"
BUDGET = {"quick": (6000, 60), "thorough": (600000, 1500)}
CHUNK = 10
RULE = (
    "one run = one DYN program with 1-3 temporal requirements (formula depth <= 3, <= 3 atoms; top level / "
    "sub-scenario setup / dynamically in a compose block) simulated under SimWorld for 1-8 environments "
    "(truth table of every atom and condition per step, agent schedule, time step - all from the tape); "
    "distinct = digest of (program, tables, outcome); non-trivial = some environment ran >= 2 steps"
)
COMPONENTS = dyncommon.COMPONENTS
ASSUMPTIONS = dyncommon.ASSUMPTIONS + [
    "the trace of a requirement consists of the steps at which its scenario was stepped (from the step it takes effect to the scenario's last step)",
    "whether a temporal require executed in a compose block is first evaluated in the same or in the next step is not documented (pin dynltl_starts_now)",
    "a scenario that is started and stopped without being stepped has an empty trace: unjudged",
]

FEAT = dict(
    ltl_general=True, ltl_depth=3, p_ltl=6, w_requireltl=3, p_sub_setup_reqs=4,
    n_behaviors=(1, 2), n_monitors=(0, 1), n_agents=(1, 2), n_subscenarios=(0, 2), depth=2,
    max_steps=(2, 6), block_len=(1, 3), w_try=0, p_guards=0, w_require=0,
    p_termwhen=2, p_termsimwhen=1, p_termafter=3, p_record=0, w_terminate=1, w_terminatesim=1,
    modular=3, flat=1,
)
BUG_MODELS = ("rvltl", "dynltl_ignored")

prepare = dyncommon.prepare
classify = dyncommon.classify


def run(tape):
    return dyncommon.run_dyn(tape, FEAT, BUG_MODELS, n_env_max=8)


def run_case(case):
    return dyncommon.run_dyn_case(case, BUG_MODELS)


shrink_case = dyncommon.shrink_case
