"""C02 -- every generated scene satisfies all of its requirements, whatever order, subset or
shortcut of checks the sampler chose.

One run = one GEO program (simverif.geogen) compiled by the real front end + one history of
consecutive Scenario.generate() calls on the same Scenario.  The sampler's two sources of
nondeterminism sit behind seams: the RNG (seeded from the tape) and the clock with which
WeightedAcceptanceChecker times requirement checks (seams.SimClock driven by a tape-chosen clock
script with faults), so the simulator decides the order of checks and which optional ones are
dropped.  A recording subclass of the real checker (installed through Scenario.setSampleChecker,
every decision delegated to super()) logs order and verdicts per candidate and re-evaluates all
requirements after the real decision.  Accepted scenes are judged by simverif.georef.

Program layouts (geogen): classic (random objects in a workspace / container, optionally a fixed
overlapping pair with random collision flags or a small object embedded in a non-convex solid),
occlusion (observers with a short visibleDistance, occluding walls -- one possibly far longer than
the visibleDistance with its centre out of range -- and several targets `visible from` / `not
visible from` / requireVisible), tower (a tall box minus a polygonal keep-out footprint as
workspace or regionContainedIn, objects at very different altitudes: region-level caches live
across the samples and scenes of a history).
"""

import gc
import hashlib
import itertools
import json
import traceback
import warnings

import numpy as np

from .. import geogen, georef
from ..seams import SeededRNG, SimClock, patched_clock, patched_random

ID, LEVEL, CHUNK = "C02", "exploration", 2
TECHNIQUE = ("deterministic simulation of the rejection sampler: RNG + requirement-timing clock behind seams, "
             "history of generate() calls vs independent witness oracle and full re-evaluation")
BUDGET = {"quick": (400, 52), "thorough": (20000, 1150)}
RULE = (
    "one run = one GEO program from the tape; layout weights 8 classic : 2 occlusion : 2 tower.  Occlusion (3D): ego with "
    "visibleDistance from {8,30,12} (+ optionally an OrientedPoint observer), 1-2 thin occluding walls 2-5 m in front of it (length "
    "100 with the centre 40-45 m away, or 8 / 3), 2-4 small targets in front of / behind the walls, each `visible from <ego|point>` "
    "(the first always, so mostly >= 2), `not visible from <observer>`, `with requireVisible True` or unconstrained.  Tower (3D): "
    "BoxRegion 40x40x320 minus a rectangular or L-shaped polygonal footprint as workspace or as regionContainedIn of some objects, "
    "2-4 objects at z from {0.5,150,120,260,30} (the first mostly 0.5) or `in workspace`.  Classic: 1-4 objects: box / cylinder / cone / spheroid / two-body mesh, constant or random "
    "sizes and yaw/pitch/roll, positions in/on the workspace, in a container or in a range; rectangular, polygonal (non-convex) "
    "or box workspace; regionContainedIn; allowCollisions False / True / Uniform(True, False); requireVisible + ego with a short "
    "visibleDistance; 0-3 hard and 0-2 soft user requirements over distances, coordinates and headings with and/or/not; 2 in 11 "
    "programs place two objects at fixed overlapping poses and constant sizes with random collision flags, 2 in 11 sample a small "
    "convex object inside the bounding box of a fixed non-convex L-prism mesh so that it is often embedded in the solid; 2D and "
    "3D mode) x one history of 30-120 generate(maxIterations from {200,50,10,1000,3}) calls on the same Scenario with a recording "
    "WeightedAcceptanceChecker of buffer size from {100,10,3,1,30}, under a clock script (per-requirement base costs, stalled "
    "clock, and spike / tie / cheapest / dearest faults at tape-chosen calls); distinct = digest of program text + clock script; "
    "non-trivial = the history showed >= 2 distinct requirement orders or >= 1 rejected candidate")
COMPONENTS = {
    "real": ["scenic parser/compiler (scenarioFromString)", "Scenario.generate / _generateInner rejection loop",
             "WeightedAcceptanceChecker (sortedRequirements, updateMetrics, getRequirementCost) via a recording subclass",
             "generateDefaultRequirements + requirements.py (Blanket/Intersection/Containment/Visibility/NonVisibility/Compiled)",
             "regions.py containsObject / intersects incl. DifferenceRegion + PolygonalFootprintRegion bounded-footprint cache, "
             "object_types.py, visibility.canSee with occluders (Object and OrientedPoint observers), trimesh, FCL, shapely"],
    "stub": ["RNG back end behind random.* (seeded Mersenne Twister) and numpy.random global state (seeded from the tape)",
             "clock: scenic.core.sample_checking.time replaced by SimClock (per-evaluation cost from the clock script)"]}
ASSUMPTIONS = [
    "a violation is only ever reported with a witness and a margin of 1e-3 x object size (point inside two solids, point of an "
    "object outside its container, separating axis with positive gap); configurations within the margin are counted as unjudged",
    "2D containers (RectangularRegion / PolygonalRegion) constrain the footprint only (docs: glossary 'footprint'); a BoxRegion "
    "container constrains all three coordinates; volume.difference(2D region) removes the region's footprint at every altitude",
    "visibility (docs/reference/visibility.rst: visible iff some ray within visibleDistance reaches the object without hitting an "
    "occluding object first) is judged by proofs only: a required-visible object (requireVisible / `visible from`) is not visible "
    "if its oriented bounding box is farther than 1.02 x visibleDistance from the camera, or if the segments from the camera to all "
    "8 corners of that box pass through one occluding box-shaped object shrunk by the margin (the shadow of a convex body is "
    "convex); a `not visible from` box object is visible if the segment from an all-round observer to its centre is in range "
    "(0.98 x visibleDistance) and misses every other object's bounding box grown by the margin (canSee's exact centre ray); "
    "partially hidden objects, view cones and non-box occluders are not judged",
    "the occupiedSpace mesh of a non-box shape is trusted to be the object (box objects are judged from position, orientation and "
    "width/length/height alone)",
    "user predicates are re-evaluated in plain Python on the sampled position/heading values; values within 1e-7 of a threshold "
    "are unjudged",
    "the scheduler cross-check uses the implementation's own requirement verdicts (falsifiedBy) on every candidate; a rejection is "
    "only contradicted by an oracle proof (separated bounding boxes, all points inside a convex container, plain-Python predicate)",
    "programs the compiler refuses (InvalidScenarioError for statically impossible layouts; RandomControlFlowError raised by "
    "Scenario.validate() for a fixed-pose object next to a random allowCollisions flag) are counted, not judged",
]
EPS_REL = 1e-3
TIER = "quick"
SHRINK_BUDGET, SHRINK_SECONDS = 120, 25


def set_tier(tier):
    global TIER
    TIER = tier


def prepare():
    import fcl  # noqa: F401
    import scenic
    import scenic.core.sample_checking  # noqa: F401
    import trimesh  # noqa: F401
    warnings.simplefilter("ignore")
    sc = scenic.scenarioFromString("workspace = Workspace(RectangularRegion((0, 0), 0, 8, 8))\n"
                                   "ego = new Object in workspace\na = new Object in workspace, with shape ConeShape()\n")
    try:  # warm-up only
        sc.generate(maxIterations=100)
    except Exception:  # noqa: BLE001
        pass
    geogen.twobody()
    gc.collect()
    gc.freeze()


def classify(v):
    return v["detail"].get("finding")


_REC = []
HookError = type("HookError", (Exception,), {})


def recorder_class():
    if _REC:
        return _REC[0]
    from scenic.core.sample_checking import WeightedAcceptanceChecker

    class Recorder(WeightedAcceptanceChecker):
        """Transparent: every decision is super()'s; only order, verdicts and results are logged."""

        def setRequirements(self, requirements):
            super().setRequirements(requirements)
            self.index = {id(r): i for i, r in enumerate(self.requirements)}
            self.cur, self.hook, self.clock = None, None, None

        def sortedRequirements(self):
            reqs = super().sortedRequirements()
            if self.cur is not None and self.cur["order"] is None:
                self.cur["order"] = [self.index[id(r)] for r in reqs]
            return reqs

        def updateMetrics(self, req, new_metrics):
            self.cur["evals"].append((self.index[id(req)], int(new_metrics[0])))
            super().updateMetrics(req, new_metrics)

        def checkRequirements(self, sample):
            self.cur = {"order": None, "evals": [], "sample": sample}
            if self.clock is not None:
                self.clock.calls = 0  # perf_counter pairs restart with every candidate (an exception may have split one)
            res = super().checkRequirements(sample)
            if self.hook:
                try:
                    self.hook(sample, res)
                except Exception as e:  # a bug of this harness must not look like a crash of the sampler
                    raise HookError(repr(e)) from e
            return res

    _REC.append(Recorder)
    return Recorder


def gen_script(t):
    base = [t.choice([1e-4, 1e-3, 1e-5, 1e-2, 0.0], f"clk.base{i}") for i in range(8)]
    stalled = t.chance(1, 8, "clk.stalled")
    if t.chance(1, 3, "clk.blanket-dear"):  # the optional blanket check (requirement 0) is slow throughout: it tends to sort last
        base[0] = 1.0
    events = []
    for k in range(t.weighted([2, 3, 3, 2], "clk.nev")):
        events.append({"kind": t.choice(["spike", "dearest", "cheapest", "tie"], f"clk.e{k}.kind"),
                       "at": t.draw(60, f"clk.e{k}.at"), "len": t.choice([20, 5, 1, 200], f"clk.e{k}.len"),
                       "target": t.weighted([6, 1, 1, 1, 1, 1, 1, 1, 1, 1, 1, 1], f"clk.e{k}.target")})
    return {"base": base, "stalled": stalled, "events": events}


def cost_of(script, r, nreq, call, fired):
    if script["stalled"]:
        fired["stalled"] = 1
        return 0.0
    c = script["base"][r % 8]
    for e in script["events"]:
        if not (e["at"] <= call < e["at"] + e["len"]):
            continue
        hit = e["target"] % nreq == r
        if e["kind"] == "tie":
            c = 0.0
        elif hit:
            c = max(c, 1e-5) * 1000 if e["kind"] == "spike" else 10.0 if e["kind"] == "dearest" else 1e-9
        else:
            continue
        fired[e["kind"]] = 1
    return c


def r9(x):
    return round(float(x), 9) + 0.0


class History:
    def __init__(self, prog, scenario, rec, script, oracle_rng):
        self.prog, self.scenario, self.rec, self.script, self.orng = prog, scenario, rec, script, oracle_rng
        self.reqs = rec.requirements
        self.nreq = len(self.reqs)
        self.ndef = self.nreq - len(prog["reqs"])
        self.kinds = [type(r).__name__ for r in self.reqs]
        self.objidx = {id(o): i for i, o in enumerate(scenario.objects)}
        self.refs = {"ws": georef.container_ref(prog["ws"]), **{k: georef.container_ref(c) for k, c in enumerate(prog["conts"])}}
        self.violations, self.stats, self.fired = [], {}, {}
        self.call = self.ncand = self.nrej = 0
        self.orders, self.first_orders, self.nevals = set(), [], [0] * self.nreq
        self.dig = hashlib.blake2b(digest_size=8)
        self.full_cap = 200  # rejected candidates beyond this many are logged but not re-evaluated (cost); set per run

    def bump(self, k, n=1):
        self.stats[k] = self.stats.get(k, 0) + n

    def report(self, clause, **detail):
        if len(self.violations) < 5:
            detail.update(program=self.prog["text"], clock_script=self.script, generate_call=self.call, candidate=self.ncand, finding=None)
            self.violations.append({"clause": clause, "detail": detail})

    def current_req(self):
        cur = self.rec.cur
        return cur["order"][len(cur["evals"])]

    def bodies(self, objs):
        return [georef.Body(o, p["shape"]) for o, p in zip(objs, self.prog["objs"])]

    def container_of(self, i):
        c = self.prog["objs"][i]["cont"]
        return (self.prog["ws"], self.refs["ws"]) if c is None else (self.prog["conts"][c], self.refs[c])

    # ---- per candidate: log + scheduler cross-check ----------------------------------
    def on_candidate(self, sample, res):
        from scenic.core.distributions import RejectionException
        import random
        cur, reqs = self.rec.cur, self.reqs
        order, evals = cur["order"] or [], cur["evals"]
        accepted = res is None
        self.ncand += 1
        self.nrej += not accepted
        active = [bool(r.active) for r in reqs]
        self.dig.update(repr((self.call, order, evals, accepted)).encode())
        if tuple(order) not in self.orders:
            self.orders.add(tuple(order))
            if len(self.first_orders) < 6:
                self.first_orders.append([f"{i}:{self.kinds[i][:5]}" for i in order])
        if self.kinds[0] == "BlanketCollisionRequirement":
            self.bump("blanket:" + ("dropped" if 0 not in order else "ran-first" if order[0] == 0 else "ran-later"))
            if accepted and 0 not in order and self.kinds.count("IntersectionRequirement"):
                self.bump("blanket:dropped-on-accepted-candidate-with-pairwise-checks")
        if not accepted:
            last = evals[-1][0] if evals and not evals[-1][1] else None
            self.bump("rejected-by:" + (self.kinds[last] if last is not None else "exception-in-check"))
        # the real checker's own bookkeeping must be consistent with what it returned
        bad_inactive = [i for i in order if not active[i]]
        if bad_inactive:
            self.report("accepted-despite-failing-requirement" if accepted else "rejected-despite-all-requirements-holding",
                        what="an inactive requirement was scheduled", requirements=bad_inactive)
        verdict = dict(evals)  # index -> 1 holds / 0 falsified (as seen by the real checker)
        for i, _ in evals:
            self.nevals[i] += 1
        if accepted:
            dropped = [i for i in range(self.nreq) if active[i] and not reqs[i].optional and i not in verdict]
            if dropped:
                self.report("mandatory-requirement-dropped", order=order, requirement_kinds=self.kinds, active=active,
                            dropped=[f"{i}:{self.kinds[i]}" for i in dropped])
        info = dict(order=order, evaluated=evals, requirement_kinds=self.kinds, active=active)
        if not accepted and evals and not evals[-1][1]:
            self.contradict_rejection(sample, evals[-1][0], res, info)
        if self.ncand > self.full_cap and not accepted:
            return
        # full re-evaluation (statistics untouched: no updateMetrics, no clock; RNG state restored)
        st, npst = random.getstate(), np.random.get_state()
        try:
            for i, r in enumerate(reqs):
                if active[i] and i not in verdict:
                    try:
                        verdict[i] = int(not r.falsifiedBy(sample))
                    except RejectionException:
                        verdict[i] = 0
        finally:
            random.setstate(st)
            np.random.set_state(npst)
        self.bump("fulleval:candidates")
        mand_fail = [i for i in range(self.nreq) if active[i] and not reqs[i].optional and verdict[i] == 0]
        opt_fail = [i for i in range(self.nreq) if active[i] and reqs[i].optional and verdict[i] == 0]
        info["all_verdicts"] = [verdict.get(i) for i in range(self.nreq)]
        if accepted and mand_fail:
            self.report("accepted-despite-failing-requirement", failing=[f"{i}:{self.kinds[i]}" for i in mand_fail], **info)
        if not accepted and not mand_fail and not opt_fail and not isinstance(res, RejectionException):
            self.report("rejected-despite-all-requirements-holding", what="no active requirement is falsified on re-evaluation",
                        rejection=str(res), **info)
        if opt_fail and not mand_fail:
            self.bump("probe:optional-falsified-while-all-mandatory-hold")

    def contradict_rejection(self, sample, i, res, info):
        """The rejecting requirement's verdict against an oracle *proof* that the requirement holds."""
        req, kind = self.reqs[i], self.kinds[i]
        objs = [sample[o] for o in self.scenario.objects]
        proof = None
        if kind in ("BlanketCollisionRequirement", "IntersectionRequirement"):
            B = self.bodies(objs)
            idx = [self.objidx[id(req.objA)], self.objidx[id(req.objB)]] if kind[0] == "I" else range(len(B))
            idx = [k for k in idx if not objs[k].allowCollisions]
            pairs = list(itertools.combinations(idx, 2)) if kind[0] == "B" or len(idx) == 2 else []
            if kind[0] == "I" and len(idx) < 2:
                proof = "one object of the pair allows collisions"
            elif kind[0] == "I" and idx[0] == idx[1]:
                proof = "the requirement compares an object with itself"
            elif all(georef.sat_gap(B[a], B[b]) > EPS_REL * max(B[a].size, B[b].size) for a, b in pairs):
                proof = f"oriented bounding boxes of all {len(pairs)} collidable pair(s) are separated by more than the margin"
        elif kind == "ContainmentRequirement":
            k = self.objidx[id(req.obj)]
            spec, ref = self.container_of(k)
            b = georef.Body(objs[k], self.prog["objs"][k]["shape"])
            if georef.convex(spec) and (ref.sd(b.points()) < -EPS_REL * b.size).all():
                proof = "every point of the object is inside its convex container by more than the margin"
        elif kind == "CompiledRequirement":
            if geogen.eval_pred(self.prog["reqs"][i - self.ndef]["pred"], objs) is True:
                proof = "the predicate is true in plain Python on the sampled values"
        if proof:
            self.report("rejected-despite-all-requirements-holding", rejected_by=f"{i}:{kind}", rejection=str(res), oracle=proof,
                        objects=[b.describe() for b in self.bodies(objs)], **info)
        elif "Visibility" not in kind:
            self.bump("probe:rejections-not-contradicted")

    # ---- per accepted scene: independent oracle ------------------------------------------
    def judge_scene(self, scene):
        prog, objs = self.prog, scene.objects
        B = self.bodies(objs)
        self.bump("accepted-scenes")
        for b, o in zip(B, objs):
            self.dig.update(repr(([r9(x) for x in b.c], [r9(x) for x in b.h], [r9(x) for x in b.R.ravel()], bool(o.allowCollisions))).encode())
        desc = lambda: [dict(b.describe(), name=p["name"], allowCollisions=bool(o.allowCollisions)) for b, p, o in zip(B, prog["objs"], objs)]  # noqa: E731
        # (a) pairwise non-overlap
        for i, j in itertools.combinations(range(len(B)), 2):
            if objs[i].allowCollisions or objs[j].allowCollisions:
                self.bump("pairs:collisions-allowed")
                continue
            margin = EPS_REL * max(B[i].size, B[j].size)
            gap = georef.sat_gap(B[i], B[j])
            if gap > margin:
                self.bump("pairs:proved-disjoint")
            elif abs(gap) <= margin:
                self.bump("pairs:near-contact-unjudged")
            elif B[i].shape == "box" and B[j].shape == "box":
                self.report("accepted-scene-overlap", pair=[prog["objs"][i]["name"], prog["objs"][j]["name"]], oracle="separating-axis test",
                            penetration=-gap, margin=margin, objects=desc())
            else:
                w = georef.overlap_witness(B[i], B[j], margin, self.orng)
                if w is None:
                    self.bump("pairs:boxes-overlap-no-witness-unjudged")
                else:
                    self.report("accepted-scene-overlap", pair=[prog["objs"][i]["name"], prog["objs"][j]["name"]], oracle="ray-parity witness",
                                point_inside_both=w, margin=margin, objects=desc())
        # (b) containment
        for k, b in enumerate(B):
            spec, ref = self.container_of(k)
            s = ref.sd(b.points())
            m = EPS_REL * b.size
            self.bump("containment:objects-checked")
            if (s > m).any():
                w = int(s.argmax())
                self.report("accepted-scene-not-contained", object=prog["objs"][k]["name"], container=spec,
                            container_is="regionContainedIn" if prog["objs"][k]["cont"] is not None else "workspace",
                            point_of_object=[float(x) for x in b.points()[w]], outside_by=float(s[w]), margin=m, objects=desc())
            elif (np.abs(s) <= m).any():
                self.bump("containment:near-boundary-unjudged")
        # (c) visibility: one necessary condition
        for v in prog["vis"]:
            k, ob, planar = v["target"], v["observer"], prog["mode2D"]
            src = ob[1] if ob[0] == "obj" else None
            cam, vd = (B[src].c, float(objs[src].visibleDistance)) if src is not None else (np.array(ob[1], float), float(ob[2]))
            T, m = B[k], max(EPS_REL * B[k].size, 1e-3)
            others = [j for j in range(len(B)) if j not in (k, src)]
            info = dict(object=prog["objs"][k]["name"], camera=[float(x) for x in cam], visibleDistance=vd, objects=desc())
            if v["positive"]:
                d = georef.camera_distance(cam, T, planar)
                self.bump("visibility:required-visible-checked")
                if d > 1.02 * vd + m:  # too far (docs: visibility.canSee step 1)
                    self.report("accepted-scene-visibility", what="required visible but out of range", distance_to_bounding_box_at_least=d, **info)
                for j in others if not planar else []:  # completely hidden behind one occluding box
                    if B[j].shape == "box" and objs[j].occluding and georef.shadowed(cam, T, B[j], m):
                        self.report("accepted-scene-visibility", what="required visible but every line of sight to its bounding box passes "
                                    "through an occluding object", occluder=prog["objs"][j]["name"], **info)
                        break
            elif T.shape == "box" and not planar:  # required invisible, yet its centre is in plain view of an all-round observer
                self.bump("visibility:required-invisible-checked")
                if (np.linalg.norm(T.c - cam) < 0.98 * vd - m and (np.abs(T.local(cam[None])[0]) > T.h + m).any()
                        and not any(georef.seg_hits(cam, T.c[None], B[j], -m)[0] for j in others)):
                    self.report("accepted-scene-visibility", what="required not visible, but the segment from the camera to its centre is in "
                                "range and clear of every other object's bounding box (grown by the margin)", **info)
        # (d) user predicates: hard ones and the soft ones active for this sample
        ureqs = self.scenario.userRequirements
        for k, q in enumerate(prog["reqs"]):
            act = bool(ureqs[k].active)
            self.dig.update(b"A" if act else b"a")
            if q["prob"] is not None:
                self.bump("soft:active" if act else "soft:inactive")
            if q["prob"] is None and not act:
                self.report("accepted-scene-user-requirement", what="hard requirement was not active", line=q["line"])
            if act:
                v = geogen.eval_pred(q["pred"], objs)
                self.bump("user-req:checked" if v is not None else "user-req:threshold-unjudged")
                if v is False:
                    self.report("accepted-scene-user-requirement", line=q["line"], predicate=q["pred"], probability=q["prob"], objects=desc())


def run(tape):
    import scenic
    from scenic.core.distributions import RandomControlFlowError, RejectionException
    from scenic.core.errors import InvalidScenarioError
    prog = geogen.generate(tape)
    script = gen_script(tape)
    ncalls = tape.intrange(30, 120, "history-length")
    max_it = tape.choice([200, 50, 10, 1000, 3], "maxIterations")
    bufsize = tape.choice([100, 10, 3, 1, 30], "bufferSize")
    seed = tape.draw(1 << 30, "rng-seed")
    key = hashlib.blake2b((prog["text"] + json.dumps(script, sort_keys=True)).encode(), digest_size=8).hexdigest()
    sample = {"program": prog["text"], "mode2D": prog["mode2D"], "clock_script": script, "history_length": ncalls,
              "maxIterations": max_it, "bufferSize": bufsize, "rng_seed": seed}
    dig = hashlib.blake2b((key + repr((ncalls, max_it, bufsize, seed))).encode(), digest_size=8)
    out = {"violations": [], "key": key, "nontrivial": False, "stats": {}, "sample": sample, "steps": 0, "simsec": 0.0}
    stats = out["stats"]
    stats["mode:2D" if prog["mode2D"] else "mode:3D"] = 1
    if prog["feature"]:
        stats["layout:" + prog["feature"]] = 1
    clock = SimClock()
    with warnings.catch_warnings(), patched_random(SeededRNG(seed)), patched_clock(clock):
        warnings.simplefilter("ignore")
        np.random.seed(seed)
        try:
            scenario = scenic.scenarioFromString(prog["text"], mode2D=prog["mode2D"])
        except (InvalidScenarioError, RandomControlFlowError) as e:  # the latter: fixed object + random allowCollisions + mesh container
            stats["compile-refused:" + type(e).__name__] = 1
            sample["compile_error"] = str(e)[:200]
            out["digest"] = dig.hexdigest()
            return out
        rec = recorder_class()(bufferSize=bufsize)
        scenario.setSampleChecker(rec)
        lines = [r.line for r in scenario.userRequirements]
        assert lines == [q["line"] for q in prog["reqs"]], (lines, prog["text"])
        H = History(prog, scenario, rec, script, np.random.default_rng(seed))
        H.dig = dig
        H.stats = stats
        rec.hook, rec.clock = H.on_candidate, clock
        clock.cost_fn = lambda n: cost_of(script, H.current_req(), H.nreq, H.call, H.fired)
        nonbox = sum(o["shape"] != "box" for o in prog["objs"])  # weight: rough cost of one candidate (deterministic)
        weight = 1 + sum("Visibility" in k for k in H.kinds) * (3 + 3 * nonbox) + 3 * sum(o["shape"] in ("mesh", "lmesh") for o in prog["objs"]) \
            + 2 * sum((prog["ws"] if o["cont"] is None else prog["conts"][o["cont"]])["kind"] in ("box", "diff") for o in prog["objs"])
        cap = max(60, (900 if TIER == "quick" else 3000) // weight)
        H.full_cap = cap // 4
        for H.call in range(ncalls):
            if H.ncand >= cap or H.violations:
                stats["history-cut-at-candidate-cap"] = int(not H.violations)
                break
            try:
                scene, _ = scenario.generate(maxIterations=min(max_it, cap - H.ncand))
            except RejectionException:
                dig.update(b"X")
                stats["generate-exhausted"] = stats.get("generate-exhausted", 0) + 1
                continue
            except HookError:
                raise
            except Exception as e:  # noqa: BLE001 -- the sampler crashed: no scene, so not judged, but if it had just
                # rejected the candidate, that rejection is still held against the oracle; the history ends here
                stats["generate-raised:" + type(e).__name__] = 1
                sample["generate_raised"] = "".join(traceback.format_exception_only(e))[-300:]
                dig.update(type(e).__name__.encode())
                cur = rec.cur
                if cur and cur["evals"] and not cur["evals"][-1][1]:
                    H.ncand += 1
                    H.contradict_rejection(cur["sample"], cur["evals"][-1][0], sample["generate_raised"],
                                           dict(order=cur["order"], evaluated=cur["evals"], requirement_kinds=H.kinds))
                break
            H.judge_scene(scene)
        stats["generate-calls"] = H.call + 1
        for i, r in enumerate(rec.requirements):  # read-only look at the real checker's statistics
            acc = rec.bufferSums[r][0]
            if acc == bufsize:
                H.bump("saturation:requirements-at-buffer-size")
            elif acc == 0 and H.nevals[i] >= bufsize:
                H.bump("saturation:requirements-at-zero")
    for k in H.fired:
        stats["clock-fault:" + k] = 1
    n = len(H.orders)
    stats["orders:distinct-sum"] = n
    for b in (2, 4, 8, 16):
        if n >= b:
            stats[f"histories:distinct-orders>={b}"] = 1
    stats["candidates"], stats["candidates-rejected"] = H.ncand, H.nrej
    if not stats.get("accepted-scenes"):
        stats["histories:no-scene-accepted"] = 1
    sample.update(requirement_kinds=H.kinds, first_orders=H.first_orders, distinct_orders=n, candidates=H.ncand,
                  accepted_scenes=stats.get("accepted-scenes", 0))
    for v in H.violations:
        dig.update(v["clause"].encode())
    out.update(violations=H.violations, digest=dig.hexdigest(), nontrivial=n >= 2 or H.nrej >= 1, steps=H.ncand, simsec=clock.now)
    return out
