"""Shared run function of the DYN-based checks (C12, C13): generate a program, compile it
with the real front end, simulate it under SimWorld for several environments, compare
every outcome with the reference model."""

import hashlib
import json

from .. import dyn, dyngen, dynrun

COMPONENTS = {
    "real": ["scenic parser/compiler", "veneer", "dynamics runtime (scenarios, behaviors, invocables, guards)",
             "Simulation._run main loop", "requirements + rv_ltl monitors", "scene generation"],
    "stub": ["external simulator (SimWorld: logging, deterministic kinematics, simulator-chosen agent schedule)",
             "SIGALRM watchdog (disabled via stuckBehaviorWarningTimeout=0)",
             "environment: truth of every user condition per step comes from simulator-owned tables"],
}
ASSUMPTIONS = [
    "undocumented behaviours are pinned as alternatives (dyn.DEFAULT_PINS); a run matching any pin combination is accepted and counted as 'pinned'",
    "conditions are pure functions of (table, step); nothing counts how often a condition is evaluated",
    "where the documentation is silent the reference raises Unsupported and the run is counted as unjudged",
]

# bug model -> known-finding key
FINDING_KEYS = {
    "dynreq": "dyn-setup-requirement-kinds",
    "inv_during_sub": "caller-invariant-checked-during-sub-behaviour",
    "nested_return": "nested-try-return-does-not-end-behavior",
    "rvltl": "rvltl-until-offset",
    "rvltl_compositional": "rvltl-until-commits-to-first-truthy-right-operand",
    "dynltl_ignored": "dynamic-temporal-require-in-compose",
}


def exception_finding(prog, impl):
    """Call-site matcher for internal errors escaping from Simulator.simulate."""
    if impl.get("kind") != "exception":
        return None
    has_dyn = any(
        dyncommon_has(s["compose"], ("requireltl",)) for s in prog["scenarios"] if s["compose"]
    )
    if has_dyn and impl.get("exc") == "AttributeError" and "_addDynamicRequirement" in impl.get("where", ""):
        return "dynamic-temporal-require-in-compose"
    return None


def dyncommon_has(stmts, ops):
    return _has(stmts, ops)


def _tries(stmts, depth=0, enclosing=()):
    """Yield (try statement, tuple of enclosing try statements) for every try in a block."""
    for s in stmts:
        op = s[0]
        if op == "try":
            yield s, enclosing
            yield from _tries(s[1], depth + 1, enclosing + (s,))
            for _, hb in s[2]:
                yield from _tries(hb, depth + 1, enclosing + (s,))
        elif op == "if":
            yield from _tries(s[2], depth, enclosing)
            yield from _tries(s[3], depth, enclosing)
        elif op == "loop":
            yield from _tries(s[2], depth, enclosing)
        elif op == "while":
            yield from _tries(s[1], depth, enclosing)


def _has(stmts, ops):
    for s in stmts:
        op = s[0]
        if op in ops:
            return True
        if op == "if" and (_has(s[2], ops) or _has(s[3], ops)):
            return True
        if op == "loop" and _has(s[2], ops):
            return True
        if op == "while" and _has(s[1], ops):
            return True
        if op == "try" and (_has(s[1], ops) or any(_has(h, ops) for _, h in s[2])):
            return True
    return False


def compile_finding(prog, msg):
    """Call-site + input-predicate matcher for compile-time failures of valid programs."""
    bodies = [b["body"] for b in prog["behaviors"]] + [s["compose"] for s in prog["scenarios"] if s["compose"]]
    nested_more_handlers = nested_break = False
    for body in bodies:
        for t, enclosing in _tries(body):
            if enclosing:
                if any(len(t[2]) > len(e[2]) for e in enclosing):
                    nested_more_handlers = True
                if _has(t[1], ("break", "continue")) or any(_has(h, ("break", "continue")) for _, h in t[2]):
                    nested_break = True
    if "no binding for nonlocal '_Scenic_interrupt_condition_" in msg and nested_more_handlers:
        return "nested-try-more-handlers-than-enclosing-does-not-compile"
    if ("'break' outside loop" in msg or "'continue' not properly in loop" in msg) and nested_break:
        return "nested-try-break-continue-does-not-compile"
    return None


def prepare():
    import gc

    import scenic  # noqa: F401  (import before forking)

    # sanitize() calls gc.collect() between environments; keep the big import-time heap
    # out of it
    gc.collect()
    gc.freeze()


def shrink_case(case, still_fails, budget=600, seconds=120):
    from .. import dynshrink

    return dynshrink.shrink_case(case, still_fails, budget=budget, seconds=seconds)


def classify(v):
    return v.get("detail", {}).get("finding")


def strip(o):
    return {k: v for k, v in o.items() if k not in ("sim", "world", "scene", "log")}


def _bits(tables):
    return {str(k): "".join("1" if b else "0" for b in v) for k, v in tables.items()}


def run_dyn(tape, feat, bug_models, raise_guards_choice=False, n_env_max=6):
    g = dyngen.Gen(tape, feat)
    prog = g.program()
    src = dyn.render(prog)
    dynrun.sanitize()
    try:
        scenario = dynrun.compile_prog(src, top=None if prog["flat"] else "Main")
    except Exception as e:  # noqa: BLE001 - every generated program is valid per the reference
        msg = f"{type(e).__name__}: {e}"
        return {
            "violations": [{"clause": "compile-error",
                            "detail": {"error": msg[:300], "finding": compile_finding(prog, msg)}}],
            "digest": hashlib.blake2b((src + msg).encode(), digest_size=8).hexdigest(),
            "nontrivial": False,
            "stats": {"programs": 1, "result:compile-error": 1},
            "sample": {"program": src, "error": msg[:300]},
            "case": {"prog": prog, "tables": {}, "schedule": [], "max_steps": prog["max_steps"],
                     "raise_guards": False, "env_seed": 0},
        }
    nobj = dyngen.count_objects(prog)
    n_env = tape.intrange(1, n_env_max, "n_env")
    envs = []

    def next_env(e):
        max_steps = prog["max_steps"]
        tables = g.tables(prog, max_steps + 2)
        schedule = g.schedule(max_steps + 1, nobj)
        raise_guards = bool(raise_guards_choice and tape.chance(1, 2, "raiseGuards"))
        return tables, schedule, max_steps, raise_guards

    return _run_envs(prog, src, scenario, n_env, next_env, bug_models)


def run_dyn_case(case, bug_models):
    """Replay of a decoded case (see dynshrink): one program, one environment."""
    prog = case["prog"]
    src = dyn.render(prog)
    dynrun.sanitize()
    try:
        scenario = dynrun.compile_prog(src, top=None if prog["flat"] else "Main")
    except Exception as e:  # noqa: BLE001
        msg = f"{type(e).__name__}: {e}"
        return {
            "violations": [{"clause": "compile-error",
                            "detail": {"error": msg[:300], "finding": compile_finding(prog, msg)}}],
            "digest": hashlib.blake2b((src + msg).encode(), digest_size=8).hexdigest(),
            "nontrivial": False,
            "stats": {"programs": 1, "result:compile-error": 1},
            "sample": {"program": src, "error": msg[:300]},
            "case": case,
        }
    tables = {int(k): [ch == "1" for ch in bits] for k, bits in case["tables"].items()}

    def next_env(e):
        return tables, case["schedule"], case["max_steps"], bool(case.get("raise_guards"))

    return _run_envs(prog, src, scenario, 1, next_env, bug_models, first_seed=case.get("env_seed", 0),
                     forced_timestep=case.get("timestep", prog["timestep"]))


def _run_envs(prog, src, scenario, n_env, next_env, bug_models, first_seed=0, forced_timestep=None):
    nobj = dyngen.count_objects(prog)
    stats = {"programs": 1}
    violations = []
    digest = hashlib.blake2b(src.encode(), digest_size=8)
    steps = 0
    nontrivial = False
    ncor = nobj + len(prog["monitors"]) + sum(1 for s in prog["scenarios"] if s["compose"] is not None)
    sample = None
    case = None
    prog0 = prog
    for e in range(first_seed, first_seed + n_env):
        tables, schedule, max_steps, raise_guards = next_env(e)
        # the time step is an argument of simulate(), not of the program: every third environment
        # simulates the same compiled scenario with another one
        prog = prog0
        if forced_timestep is not None:
            prog = dict(prog0, timestep=forced_timestep)
        elif e % 3 == 2:
            ts = dyngen.TIMESTEPS
            prog = dict(prog0, timestep=ts[(ts.index(prog0["timestep"]) + 1) % len(ts)])
            stats["environments_with_another_timestep"] = stats.get("environments_with_another_timestep", 0) + 1
        impl = dynrun.run_impl(scenario, tables, schedule, max_steps, prog["timestep"], seed=e,
                               raise_guards=raise_guards)
        verdict, info, ref, finding = dynrun.judge(
            prog, impl, tables, schedule, max_steps, bug_models=bug_models,
            ref_kwargs={"raise_guards": raise_guards},
        )
        if verdict != "diff" and e % 2 == 1 and impl.get("scene") is not None and impl["kind"] != "exception":
            # history: the same scene simulated again (as the retry loop of simulate() or a
            # user does) must be judged exactly like the first time
            scene = impl["scene"]
            impl.pop("sim", None)
            impl.pop("world", None)
            dynrun.sanitize()
            dynrun.set_env(tables)
            impl2 = dynrun.simulate_scene(scene, schedule, max_steps, prog["timestep"], raise_guards)
            v2, info2, ref2, finding2 = dynrun.judge(
                prog, impl2, tables, schedule, max_steps, bug_models=bug_models,
                ref_kwargs={"raise_guards": raise_guards},
            )
            stats["second_simulations_of_same_scene"] = stats.get("second_simulations_of_same_scene", 0) + 1
            if v2 == "diff":
                verdict, ref, finding, impl = v2, ref2, finding2, impl2
                info = [("second-simulation-" + c, d) for c, d in info2]
        stats["env_runs"] = stats.get("env_runs", 0) + 1
        for key in ("result:" + impl["kind"], "verdict:" + verdict):
            stats[key] = stats.get(key, 0) + 1
        if impl["kind"] == "ok":
            k = "term:" + impl["termtype"]
            stats[k] = stats.get(k, 0) + 1
        steps += impl.get("time", 0)
        if impl.get("time", 0) >= 2 and ncor >= 2:
            nontrivial = True
        digest.update(json.dumps([tables, schedule, strip(impl)], sort_keys=True, default=repr).encode())
        digest.update(repr(dynrun.norm_log(impl["log"])).encode())
        w = impl.get("world")
        if w is not None and w.last is not None and len(set(w.last.sched_log)) > 1:
            stats["probe:agent_order_changed_between_steps"] = stats.get("probe:agent_order_changed_between_steps", 0) + 1
        if sample is None or verdict == "diff":
            sample = {
                "program": src,
                "timestep": prog["timestep"],
                "max_steps": max_steps,
                "raiseGuardViolations": raise_guards,
                "tables": _bits(tables),
                "schedule": schedule,
                "impl": strip(impl),
                "impl_log": [list(x) for x in dynrun.norm_log(impl["log"])][:200],
            }
        # isolation between environments: process-history effects are C14's business
        leaked = bool(getattr(scenario.dynamicScenario, "_isRunning", False))
        impl.pop("sim", None)
        impl.pop("world", None)
        impl.pop("scene", None)
        w = None
        bad = dynrun.sanitize()
        if leaked or bad:
            stats["probe:state_leak_after_run_recovered"] = stats.get("probe:state_leak_after_run_recovered", 0) + 1
            dynrun._COMPILED.clear()
            scenario = dynrun.compile_prog(src, top=None if prog["flat"] else "Main", cache=False)
        if verdict == "diff":
            fkey = FINDING_KEYS.get(finding) if finding else exception_finding(prog, impl)
            for clause, detail in info:
                d = dict(detail)
                d["ref_outcome"] = strip(ref) if ref else None
                d["finding"] = fkey
                violations.append({"clause": clause, "detail": d})
            case = {"prog": prog0, "timestep": prog["timestep"], "tables": _bits(tables), "schedule": schedule, "max_steps": max_steps,
                    "raise_guards": raise_guards, "env_seed": e}
            break
    return {
        "violations": violations,
        "digest": digest.hexdigest(),
        "key": digest.hexdigest(),
        "nontrivial": nontrivial,
        "stats": stats,
        "sample": sample,
        "steps": steps,
        "simsec": steps * float(prog["timestep"]),
        "case": case,
    }
