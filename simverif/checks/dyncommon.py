"""Shared run function of the DYN-based checks (C12, C13): generate a program, compile it
with the real front end, simulate it under SimWorld for several environments, compare
every outcome with the reference model."""

import hashlib
import json

from .. import dyn, dyngen, dynrun

COMPONENTS = {
    "real": ["scenic parser/compiler", "veneer", "dynamics runtime (scenarios, behaviors, invocables, guards)",
             "Simulation._run main loop", "requirements + rv_ltl monitors", "scene generation"],
    "stub": ["external simulator (SimWorld: logging, deterministic kinematics, simulator-chosen agent schedule)",
             "SIGALRM watchdog (disabled via stuckBehaviorWarningTimeout=0)",
             "environment: truth of every user condition per step comes from simulator-owned tables"],
}
ASSUMPTIONS = [
    "undocumented behaviours are pinned as alternatives (dyn.DEFAULT_PINS); a run matching any pin combination is accepted and counted as 'pinned'",
    "conditions are pure functions of (table, step); nothing counts how often a condition is evaluated",
    "where the documentation is silent the reference raises Unsupported and the run is counted as unjudged",
]

# bug model -> known-finding key
FINDING_KEYS = {
    "dynreq": "dyn-setup-requirement-kinds",
    "inv_during_sub": "caller-invariant-checked-during-sub-behaviour",
}


def prepare():
    import scenic  # noqa: F401  (import before forking)


def classify(v):
    return v.get("detail", {}).get("finding")


def strip(o):
    return {k: v for k, v in o.items() if k not in ("sim", "world", "scene", "log")}


def run_dyn(tape, feat, bug_models, raise_guards_choice=False, n_env_max=6):
    g = dyngen.Gen(tape, feat)
    prog = g.program()
    src = dyn.render(prog)
    scenario = dynrun.compile_prog(src, top=None if prog["flat"] else "Main")
    nobj = dyngen.count_objects(prog)
    n_env = tape.intrange(1, n_env_max, "n_env")
    stats = {"programs": 1}
    violations = []
    digest = hashlib.blake2b(src.encode(), digest_size=8)
    steps = 0
    nontrivial = False
    ncor = nobj + len(prog["monitors"]) + sum(1 for s in prog["scenarios"] if s["compose"] is not None)
    sample = None
    for e in range(n_env):
        max_steps = prog["max_steps"]
        tables = g.tables(prog, max_steps + 2)
        schedule = g.schedule(max_steps + 1, nobj)
        raise_guards = bool(raise_guards_choice and tape.chance(1, 2, "raiseGuards"))
        impl = dynrun.run_impl(scenario, tables, schedule, max_steps, prog["timestep"], seed=e,
                               raise_guards=raise_guards)
        verdict, info, ref, finding = dynrun.judge(
            prog, impl, tables, schedule, max_steps, bug_models=bug_models,
            ref_kwargs={"raise_guards": raise_guards},
        )
        stats["env_runs"] = stats.get("env_runs", 0) + 1
        for key in ("result:" + impl["kind"], "verdict:" + verdict):
            stats[key] = stats.get(key, 0) + 1
        if impl["kind"] == "ok":
            k = "term:" + impl["termtype"]
            stats[k] = stats.get(k, 0) + 1
        steps += impl.get("time", 0)
        if impl.get("time", 0) >= 2 and ncor >= 2:
            nontrivial = True
        digest.update(json.dumps([tables, schedule, strip(impl)], sort_keys=True, default=repr).encode())
        digest.update(repr(dynrun.norm_log(impl["log"])).encode())
        w = impl.get("world")
        if w is not None and w.last is not None and len(set(w.last.sched_log)) > 1:
            stats["probe:agent_order_changed_between_steps"] = stats.get("probe:agent_order_changed_between_steps", 0) + 1
        if sample is None or verdict == "diff":
            sample = {
                "program": src,
                "timestep": prog["timestep"],
                "max_steps": max_steps,
                "raiseGuardViolations": raise_guards,
                "tables": {str(k): "".join("1" if b else "0" for b in v) for k, v in tables.items()},
                "schedule": schedule,
                "impl": strip(impl),
                "impl_log": [list(x) for x in dynrun.norm_log(impl["log"])][:200],
            }
        if verdict == "diff":
            fkey = FINDING_KEYS.get(finding) if finding else None
            for clause, detail in info:
                d = dict(detail)
                d["ref_outcome"] = strip(ref) if ref else None
                d["finding"] = fkey
                violations.append({"clause": clause, "detail": d})
            break
    return {
        "violations": violations,
        "digest": digest.hexdigest(),
        "key": digest.hexdigest(),
        "nontrivial": nontrivial,
        "stats": stats,
        "sample": sample,
        "steps": steps,
        "simsec": steps * float(prog["timestep"]),
    }
