"""C20 -- road networks are internally consistent for every map, cached or parsed.

One run = one stateful sequence of operations on ONE copy of a shipped OpenDRIVE map in a
fresh scratch directory: load(useCache, writeCache, options), edit the map text, change the
options, delete the cache, replace the cache by a foreign one (other map / other options),
torn write (truncate the .snet), flip a header byte, set an older version, flip a payload
byte.  The whole plan is drawn from the tape BEFORE anything is executed, so the tape
consumption never depends on an outcome.

Oracle: (1) every successful load is equivalent (roadnet.dump) to an uncached parse of the
current file content with the current options; (2) a cache that is stale / foreign / written
with other options / of another version / torn / header-corrupted is never used (probe:
counting wrapper around Network.fromPickle) and no exception escapes; (3) a flipped payload
byte may give "equivalent, ignored, or any exception" -- counted, never reported, and the
cache is treated as possibly tainted until it is definitely replaced; (4) the structural
invariants of the statement (roadnet.Inv) hold on every network obtained, at tape-chosen
elements and points.
"""

import collections
import hashlib
import inspect
import json
import os
import pathlib
import re
import shutil
import struct
import tempfile
import warnings

from .. import roadnet

ID = "C20"
LEVEL = "exploration"
TECHNIQUE = ("deterministic simulation of the cache file-system seam of Network.fromFile with fault injection "
             "(stale/foreign/torn/corrupted .snet) vs uncached-parse reference, plus structural invariants at seeded points")
BUDGET = {"quick": (4000, 45), "thorough": (200000, 1200)}
CHUNK = 1
RULE = (
    "one run = one shipped map (quick: the non-empty .xodr files below 300 kB; thorough: all non-empty ones) copied to a "
    "scratch directory + a seeded sequence of 5-10 operations (load with useCache/writeCache/options from the option grid "
    "ref_points x tolerance x fill_gaps x fill_intersections x elide_short_roads; text edit of a lane width / road length / "
    "comment; option change; cache delete; foreign cache; torn write; header byte flip; older version; payload byte flip) "
    "with 3-6 structural probes per load; distinct = distinct digest of (map, operation plan); non-trivial = at least one "
    "fault (stale, foreign, torn, header, version, payload) was really applied to an existing cache and followed by a load "
    "with useCache=True"
)
COMPONENTS = {
    "real": ["Network.fromFile / fromOpenDrive / fromPickle / dumpPickle / __setstate__", "xodr_parser (RoadMap.parse, "
             "calculate_geometry, toScenicNetwork)", "Network look-ups (findPointIn, elementAt, laneAt, roadAt, ...), "
             "roadDirection / nominalDirectionsAt", "deterministicHash of the options", "real files in a scratch directory"],
    "stub": ["crash during dumpPickle (simulated by truncating the finished .snet)", "disk corruption (byte flips written "
             "by the harness)", "cache-use probe: counting wrapper around Network.fromPickle (observation only)"],
}
ASSUMPTIONS = [
    "a cache counts as 'must be ignored' only if map content or EFFECTIVE options (defaults filled in) differ, or the file is "
    "torn / header-corrupted / of another version; same effective options passed differently are unjudged",
    "a byte flip inside the compressed payload may go unnoticed: any outcome is accepted there and only counted",
    "predecessor/successor links are only required to point at network elements; mutual pred/succ is counted, not required, "
    "because shipped maps declare one-sided links and junction lanes have several successors",
    "traffic direction is judged only at centre-line points of ordinary-road lanes away from intersections and lane overlaps",
    "child-inside-parent is judged by area outside the parent buffered by the tolerance (<= 0.1 % of the child or 1e-4 m^2)",
    "if the uncached parse of the (edited) map raises, the load under test must raise too; nothing else is judged for it",
    "the .snet bytes depend on PYTHONHASHSEED (pickle of sets), so offsets are tape-chosen fractions and payload-flip "
    "outcomes are excluded from the run digest",
]

REPO = pathlib.Path(os.environ.get("SIMVERIF_REPO", "/repo"))
QUICK_MAX_BYTES = 300_000
# measured to parse in < 0.5 s although larger; the shipped map where fill_intersections=False changes the network
# (Issue189 is the only shipped map with multi-section ordinary roads that end at a junction)
QUICK_EXTRA = ("assets/maps/LGSVL/borregasave.xodr", "assets/maps/misc/Issue189.xodr")
HEADER = 76  # 4 version + 64 map digest + 8 options digest
_TIER = "quick"
_MAPS = {}
PROBE = {"calls": 0, "hits": 0}
_REF = collections.OrderedDict()
_SIDE = collections.OrderedDict()
OPS = ["load", "edit", "options", "delete", "foreign", "torn", "hdrflip", "oldver", "payload"]
WEIGHTS = [8, 3, 5, 1, 3, 4, 3, 2, 2]
FAULTS = ("foreign", "torn", "hdrflip", "oldver", "payload", "options")  # ops that are followed by a cached load
ABSENT = "absent"
# one-entry changes of the current options; falsy values first (an options digest must not drop them)
DELTAS = [("fill_intersections", (False, True, ABSENT)), ("fill_gaps", (False, True, ABSENT)),
          ("elide_short_roads", (True, False, ABSENT)), ("tolerance", (ABSENT, 0.1, 0.02, 0.05)),
          ("ref_points", (ABSENT, 8, 5, 12, 20))]


def set_tier(tier):
    global _TIER
    _TIER = tier


def maps():
    if _TIER not in _MAPS:
        found = []
        for p in sorted((REPO / "assets/maps").rglob("*.xodr")):
            size = p.stat().st_size
            name = str(p.relative_to(REPO))
            if size > 0 and (_TIER == "thorough" or size < QUICK_MAX_BYTES or name in QUICK_EXTRA):
                found.append((size, name))
        _MAPS[_TIER] = [name for _, name in sorted(found)]
    return _MAPS[_TIER]


def network_cls():
    from scenic.domains.driving.roads import Network

    return Network


def prepare():
    import scenic.formats.opendrive.xodr_parser  # noqa: F401  (import before forking)

    install_probe()


def install_probe():
    Network = network_cls()
    if getattr(Network, "_simverif_probe", False):
        return
    orig = Network.__dict__["fromPickle"].__func__

    def fromPickle(cls, *a, **k):
        PROBE["calls"] += 1
        net = orig(cls, *a, **k)
        PROBE["hits"] += 1
        return net

    Network.fromPickle = classmethod(fromPickle)
    Network._simverif_probe = True


def classify(v):
    return v.get("detail", {}).get("finding")


# ----------------------------------------------------------------------------
# plan (pure function of the tape)
# ----------------------------------------------------------------------------
def gen_opts(t):
    o = {}
    i = t.draw(5, "ref_points")
    if i:
        o["ref_points"] = (8, 5, 12, 20)[i - 1]
    i = t.draw(4, "tolerance")
    if i:
        o["tolerance"] = (0.1, 0.02, 0.05)[i - 1]
    for k in ("fill_gaps", "fill_intersections", "elide_short_roads"):
        i = t.draw(3, k)
        if i:
            o[k] = (False, True)[i - 1]
    return o


def vary_opts(t, cur):
    """Mostly the current options with ONE entry changed (often to an explicit False), sometimes a fresh set."""
    if t.draw(4, "optmode") == 3:
        return gen_opts(t)
    key, alts = DELTAS[t.weighted([4, 2, 2, 1, 1], "optkey")]
    i = t.draw(len(alts), "optval")
    if cur.get(key, ABSENT) == alts[i]:
        i = (i + 1) % len(alts)
    new = {k: v for k, v in cur.items() if k != key}
    if alts[i] != ABSENT:
        new[key] = alts[i]
    return new


def gen_load(t, force_cache=False):
    uc = t.draw(4, "useCache") < 3
    wc = t.draw(4, "writeCache") < 3
    probes = [[t.draw(7, "probe"), t.draw(1 << 20, "elem"), t.draw(1 << 20, "a"), t.draw(4, "b")]
              for _ in range(t.intrange(3, 6, "nprobes"))]
    return {"op": "load", "useCache": uc or force_cache, "writeCache": wc, "probes": probes}


def make_plan(t):
    ms = maps()
    plan = {"map": t.choice(ms, "map"), "opts": gen_opts(t) if t.draw(2, "initopts") else {}, "ops": []}
    cur = dict(plan["opts"])
    n = t.intrange(5, 10, "nops")
    ops = plan["ops"]
    ops.append(gen_load(t, force_cache=True))
    ops[0]["writeCache"] = True
    while len(ops) < n:
        kind = OPS[t.weighted(WEIGHTS, "op")]
        after_fault = ops[-1]["op"] in FAULTS
        if after_fault or len(ops) == n - 1:
            kind = "load"  # every fault is followed by a load; every sequence ends with one
        if kind == "load":
            ops.append(gen_load(t, force_cache=after_fault))
        elif kind == "edit":
            ops.append({"op": "edit", "kind": t.draw(3, "editkind"), "idx": t.draw(1 << 16, "idx"), "amt": t.draw(4, "amt")})
        elif kind == "options":
            cur = vary_opts(t, cur)
            ops.append({"op": "options", "opts": dict(cur)})
        elif kind == "delete":
            ops.append({"op": "delete"})
        elif kind == "foreign":
            sub = t.draw(3, "foreign")  # 0 other map, 1 same map other options, 2 both
            ops.append({"op": "foreign", "sub": sub, "other": t.draw(6, "othermap"), "opts": vary_opts(t, cur) if sub else None})
        elif kind == "torn":
            ops.append({"op": "torn", "mode": t.draw(3, "mode"), "x": t.draw(4096, "where")})
        elif kind == "hdrflip":
            ops.append({"op": "hdrflip", "off": t.draw(HEADER, "off"), "mask": 1 + t.draw(255, "mask")})
        elif kind == "oldver":
            ops.append({"op": "oldver", "back": 1 + t.draw(3, "back")})
        else:
            ops.append({"op": "payload", "x": t.draw(4096, "where"), "mask": 1 + t.draw(255, "mask")})
    return plan


# ----------------------------------------------------------------------------
# helpers
# ----------------------------------------------------------------------------
def sha(b):
    return hashlib.sha256(b).hexdigest()


def okey(opts):
    return json.dumps(opts, sort_keys=True)


def ekey(opts):
    sig = inspect.signature(network_cls().fromOpenDrive)
    full = {k: p.default for k, p in sig.parameters.items() if p.default is not inspect.Parameter.empty}
    full.update(opts)
    return json.dumps(full, sort_keys=True)


def memo(store, key, make, cap):
    if key in store:
        store.move_to_end(key)
        return store[key]
    val = store[key] = make()
    while len(store) > cap:
        store.popitem(last=False)
    return val


def reference(data, opts, scratch):
    def make():
        d = pathlib.Path(scratch, "ref")
        d.mkdir(exist_ok=True)
        (d / "r.xodr").write_bytes(data)
        try:
            net = network_cls().fromFile(d / "r.xodr", useCache=False, writeCache=False, **opts)
        except Exception as e:  # noqa: BLE001 - a map the parser rejects has no network to judge
            return {"net": None, "err": type(e).__name__, "lines": None, "dig": None}
        lines = roadnet.dump(net)
        return {"net": net, "err": None, "lines": lines, "dig": roadnet.digest(lines)}

    return memo(_REF, (sha(data), okey(opts)), make, 10 if _TIER == "quick" else 4)


def side_cache(data, opts, scratch):
    """Bytes of the .snet the implementation writes for (data, opts); None if the parse fails."""
    def make():
        d = pathlib.Path(scratch, "side")
        d.mkdir(exist_ok=True)
        (d / "x.xodr").write_bytes(data)
        try:
            network_cls().fromFile(d / "x.xodr", useCache=False, writeCache=True, **opts)
            return (d / "x.snet").read_bytes()
        except Exception:  # noqa: BLE001
            return None
        finally:
            shutil.rmtree(d, ignore_errors=True)

    return memo(_SIDE, (sha(data), okey(opts)), make, 6)


def apply_edit(data, kind, idx, amt, n):
    pat = {1: rb'(<width\b[^>]*?\ba=")([^"]+)(")', 2: rb'(<road\b[^>]*?\blength=")([^"]+)(")'}.get(kind)
    if pat:
        ms = list(re.finditer(pat, data))
        if ms:
            m = ms[idx % len(ms)]
            try:
                val = float(m.group(2))
            except ValueError:
                val = None
            if val is not None and val > 0.2:
                new = val + 0.0625 * (amt + 1) if kind == 1 else val * (1 - (amt + 1) / 4096.0)
                what = {"edit": "lane-width" if kind == 1 else "road-length", "match": idx % len(ms),
                        "old": val, "new": new}
                return data[: m.start(2)] + repr(new).encode() + data[m.end(2):], what
    return data + b"<!-- simverif edit %d -->\n" % n, {"edit": "comment"}


# ----------------------------------------------------------------------------
# execution
# ----------------------------------------------------------------------------
def execute(plan, scratch):
    Network = network_cls()
    version = Network._currentFormatVersion()
    ms = maps()
    xodr = pathlib.Path(scratch, "m.xodr")
    snet = xodr.with_suffix(Network.pickledExt)
    data = (REPO / plan["map"]).read_bytes()
    xodr.write_bytes(data)
    opts = dict(plan["opts"])
    cm = None  # model of the cache on disk: what it was written for, injected fault, foreign origin
    tainted = False  # a payload flip may still be on disk (outcome-dependent => excluded from digest)
    stats = collections.Counter()
    viol, log = [], []
    nontrivial = False

    def bad(clause, i, **detail):
        detail.update(map=plan["map"], op_index=i, options=opts, cache=cm and {k: cm[k] for k in ("faults", "why")})
        detail.setdefault("finding", None)
        viol.append({"clause": clause, "detail": detail})

    for i, op in enumerate(plan["ops"]):
        kind = op["op"]
        stats["op:" + kind] += 1
        ent = {"op": kind}
        if kind == "load":
            ref = reference(data, opts, scratch)
            stale = cm is not None and (cm["content"] != sha(data) or cm["ekey"] != ekey(opts))
            must_ignore = cm is not None and (stale or bool(cm["faults"]))
            # a torn file whose payload still decodes completely (only the gzip trailer is cut) is harmless:
            # torn caches are judged by equivalence + no exception, the others also by the cache-use probe
            hit_forbidden = cm is not None and (stale or "header-flip" in cm["faults"] or "older-version" in cm["faults"])
            valid = cm is not None and not must_ignore and cm["okey"] == okey(opts)
            why = None
            if cm is not None:
                why = cm["why"] = (cm["faults"] and cm["faults"][0]) or (not stale and "valid") or cm["origin"] or (
                    "stale-map" if cm["content"] != sha(data) else "other-options")
            before = dict(PROBE)
            exc = net = None
            try:
                # (every third operation names the map without its extension: the documented search
                # order then finds the original map before its cache)
                where = xodr.with_suffix("") if i % 3 == 2 else xodr
                net = Network.fromFile(where, useCache=op["useCache"], writeCache=op["writeCache"], **opts)
            except Exception as e:  # noqa: BLE001 - classified below
                exc = e
            called, hit = PROBE["calls"] > before["calls"], PROBE["hits"] > before["hits"]
            ent.update(useCache=op["useCache"], writeCache=op["writeCache"], cache=why, ref=ref["err"] or "ok")
            if op["useCache"] and cm is not None:
                stats["load_after:" + why] += 1
                if must_ignore and not tainted:
                    nontrivial = True
            lenient = tainted and op["useCache"]
            if lenient:  # outcome may depend on the (hash-seed dependent) cache bytes: count only
                nontrivial = True
                res = "exception" if exc is not None else ("hit" if hit else "ignored")
                stats["payload:" + res] += 1
                if net is not None and ref["net"] is not None:
                    try:  # a corrupted pickle may even unpickle to something that is not a Network
                        same = roadnet.digest(roadnet.dump(net)) == ref["dig"]
                    except Exception:  # noqa: BLE001
                        same = None
                    stats["payload:" + res + {True: "-equivalent", False: "-NOT-equivalent", None: "-garbage-object"}[same]] += 1
                ent["outcome"] = "any-accepted"
            elif exc is not None:
                ent["outcome"] = "exc:" + type(exc).__name__
                if ref["err"] is None:
                    bad("exception-escapes-load", i, exception=type(exc).__name__, message=str(exc)[:200], cache_state=why)
                else:
                    stats["outcome:both-fail"] += 1
                    if type(exc).__name__ != ref["err"]:
                        stats["unjudged:different-exception-types"] += 1
            else:
                if hit:
                    stats["cache_hit"] += 1
                elif called:
                    stats["cache_ignored"] += 1
                if valid and op["useCache"] and not hit:
                    stats["cache_miss_on_valid_cache"] += 1
                if cm is not None and not must_ignore and not valid:
                    stats["unjudged:same-effective-options-passed-differently"] += 1
                ent["outcome"] = "hit" if hit else ("ignored" if called else "parsed")
                stats["outcome:" + ent["outcome"]] += 1
                if hit and not op["useCache"]:
                    bad("cache-used-although-useCache-false", i)
                if hit and hit_forbidden:
                    bad("unusable-cache-used", i, cache_state=why)
                elif hit and must_ignore:
                    stats["torn:cache-used-payload-complete"] += 1
                if ref["net"] is None:
                    bad("load-succeeds-where-uncached-parse-fails", i, reference_error=ref["err"], cache_hit=hit)
                else:
                    lines = roadnet.dump(net)
                    ent["dump"] = roadnet.digest(lines)
                    if ent["dump"] != ref["dig"]:
                        bad("loaded-network-not-equivalent-to-uncached-parse", i, cache_hit=hit, cache_state=why,
                            diff=roadnet.first_diff(lines, ref["lines"]))
                    elif hit:
                        stats["cache_hit_equivalent"] += 1
            if net is not None and not lenient:
                inv = roadnet.Inv(net)
                run_probes(inv, net, op["probes"])
                stats.update(inv.st)
                for v in inv.viol:
                    v["detail"].update(map=plan["map"], op_index=i, options=opts, from_cache=hit)
                    viol.append(v)
            # model of the cache after the load
            if op["writeCache"] and exc is None and (not hit or lenient):
                if snet.exists() and not lenient:
                    head = snet.read_bytes()[:HEADER]
                    good = head[:4] == struct.pack("<I", version) and head[4:68] == hashlib.blake2b(data).digest()
                    stats["cache_written" if good else "unjudged:cache-not-rewritten-after-miss"] += 1
                cm = {"content": sha(data), "okey": okey(opts), "ekey": ekey(opts), "faults": [], "why": None,
                      "origin": None}
                if not op["useCache"]:
                    tainted = False  # definitely overwritten
        elif kind == "edit":
            data, what = apply_edit(data, op["kind"], op["idx"], op["amt"], i)
            xodr.write_bytes(data)
            ent.update(what)
            stats["edit:" + what["edit"]] += 1
        elif kind == "options":
            opts = dict(op["opts"])
            ent["opts"] = opts
        elif kind == "delete":
            if snet.exists():
                snet.unlink()
                stats["fault:delete"] += 1
            cm, tainted = None, False
        elif kind == "foreign":
            odata, oopts = data, opts
            if op["sub"] != 1:
                small = [m for m in ms[:6] if m != plan["map"]] or ms
                ent["other"] = small[op["other"] % len(small)]
                odata = (REPO / ent["other"]).read_bytes()
            if op["sub"]:
                oopts = ent["opts"] = dict(op["opts"])
            blob = side_cache(odata, oopts, scratch)
            if blob is None:
                stats["fault-skipped:foreign-parse-error"] += 1
                ent["skipped"] = True
            else:
                snet.write_bytes(blob)
                stats["fault:foreign-" + ("other-map", "other-options", "other-map-and-options")[op["sub"]]] += 1
                cm = {"content": sha(odata), "okey": okey(oopts), "ekey": ekey(oopts), "faults": [], "why": None,
                      "origin": "foreign-" + ("map", "options", "map-and-options")[op["sub"]]}
                tainted = False
        elif not snet.exists():
            stats["fault-skipped:no-cache-file"] += 1
            ent["skipped"] = True
        else:
            blob = bytearray(snet.read_bytes())
            size = len(blob)
            if kind == "hdrflip" and op["off"] >= size:
                stats["fault-skipped:header-already-torn"] += 1
                log.append(ent)
                continue
            if kind == "torn":
                # "fraction" always cuts into the deflate data; "tail" cuts 1..16 bytes (trailer = last 8)
                off = (min(size * op["x"] // 4096, size - 64), op["x"] % (HEADER + 2), size - 1 - op["x"] % 16)[op["mode"]]
                off = max(0, min(off, size - 1))
                blob = blob[:off]
                ent["where"] = ["fraction", "header", "tail"][op["mode"]]
                stats["fault:torn-" + ("header" if off < HEADER else "payload")] += 1
            elif kind == "hdrflip":
                blob[op["off"]] ^= op["mask"]
                ent["field"] = "version" if op["off"] < 4 else "map-digest" if op["off"] < 68 else "options-digest"
                stats["fault:hdrflip-" + ent["field"]] += 1
            elif kind == "oldver":
                blob[:4] = struct.pack("<I", max(0, version - op["back"]))
                stats["fault:oldver"] += 1
            else:
                if size <= HEADER:
                    stats["fault-skipped:no-payload"] += 1
                    log.append(ent)
                    continue
                blob[HEADER + (size - HEADER) * op["x"] // 4096] ^= op["mask"]
                stats["fault:payload-flip"] += 1
                tainted = True
            snet.write_bytes(bytes(blob))
            if cm is None:
                cm = {"content": None, "okey": None, "ekey": None, "faults": [], "why": None, "origin": None}
            cm["faults"].append({"torn": "torn", "hdrflip": "header-flip", "oldver": "older-version",
                                 "payload": "payload-flip"}[kind])
        log.append(ent)

    seen, uniq = set(), []  # one violation per (clause, finding) and run
    for v in viol:
        k = (v["clause"], v["detail"].get("finding"))
        if k not in seen:
            seen.add(k)
            uniq.append(v)
    viol = uniq
    desc = json.dumps([plan["map"], plan["opts"], plan["ops"]], sort_keys=True)
    dig = hashlib.blake2b((desc + json.dumps(log, sort_keys=True)).encode(), digest_size=8).hexdigest()
    return {
        "violations": viol,
        "digest": dig,
        "key": hashlib.blake2b(desc.encode(), digest_size=8).hexdigest(),
        "nontrivial": nontrivial,
        "stats": dict(stats),
        "sample": {"map": plan["map"], "options": plan["opts"], "ops": log},
        "steps": len(plan["ops"]),
        "simsec": 0.0,
    }


def run_probes(inv, net, probes):
    els = list(net.elements.values())
    inv.registry()
    if inv.viol:  # dangling links: the other probes would only stumble over the same broken objects
        inv.st["probes-skipped-after-dangling-links"] += 1
        return
    for kind, e, a, b in probes:
        if kind == 0:  # look-ups at a point of a tape-chosen element
            el = els[e % len(els)]
            inv.lookups(el, inv.point_in(el, b, a, e // len(els)))
        elif kind == 1:  # links + containment of a tape-chosen element
            inv.element(els[e % len(els)])
        elif kind == 2 and net.lanes:
            inv.direction(net.lanes[e % len(net.lanes)], a)
        elif kind == 3:
            pool = (list(net.lanes), list(net.allRoads), list(net.intersections) or list(net.lanes))[b % 3]
            inv.tolerant(pool[e % len(pool)], a // 2, a % 2)
        elif kind == 5:
            inv.drivable_point(e, a)
        elif kind == 6:  # a point diagonally outside everything, between 1.05 and 1.2 x tolerance away
            pool = (list(net.allRoads), els, list(net.intersections) or els, list(net.lanes))[b]
            inv.outside(pool[e % len(pool)], a, e // 7)
        else:  # all maneuvers of an intersection (or a lane if the map has none)
            pool = list(net.intersections) or list(net.lanes)
            inv.element(pool[e % len(pool)])


def run(tape):
    install_probe()
    plan = make_plan(tape)
    scratch = tempfile.mkdtemp(prefix="simverif-c20-")
    try:
        with warnings.catch_warnings():
            warnings.simplefilter("ignore")
            return execute(plan, scratch)
    finally:
        shutil.rmtree(scratch, ignore_errors=True)
