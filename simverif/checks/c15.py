"""C15 — same program, options and seed give identical scenes and runs, every time.

The "schedule" here is everything the property says must not matter.  One run = one program
and one seed executed in several *process instances* that differ only in things that must
not matter:

  * memory layout: an allocation preface (k throw-away distributions created and partly
    freed before compiling) shifts the addresses the program's distributions get; an
    optional salt on the id-based hash of Scenic's samplable values re-orders every
    set / dict of such values the same way a different address layout would;
  * hash randomisation: fresh interpreters (subprocess, not fork) under other PYTHONHASHSEEDs;
  * wall-clock timing of requirement checks: a simulated clock with a different cost
    script per instance re-orders the checks of WeightedAcceptanceChecker;
  * randomness consumed internally while checking requirements: a checker wrapper burns
    `random` and `numpy.random` inside checkRequirements (buggify for the save/restore).

Oracle: the canonical digest of every scene of the sequence (parameters, every object
property, iteration count) and of the simulation result must be bit-identical in all
instances.  A difference reproduced by the allocation preface alone is labelled
"real-layout"; one that needs the hash salt is labelled "hash-order".
"""

import hashlib
import json
import os
import subprocess
import sys

from .. import dyn, dyngen, fd
from . import c14, c19, dyncommon

ID = "C15"
LEVEL = "exploration"
TECHNIQUE = "deterministic simulation of process instances: same (program, options, seed) under varied memory layout, hash seed, simulated requirement-timing clock and internal RNG use; all digests must be identical"
BUDGET = {"quick": (2000, 50), "thorough": (200000, 1500)}
CHUNK = 1
MAX_WORKERS = 6
SHRINK_BUDGET = 60
SHRINK_SECONDS = 90
SELFTEST_N = {"quick": 3, "thorough": 8}  # one run costs 5 forks + a fresh interpreter
RULE = (
    "one run = one program (finite-discrete fragment biased towards random values referenced only from "
    "requirements, or a dynamic program whose behaviors draw random values / do choose / do shuffle at run time) "
    "+ one seed + a sequence of 1-12 scenes, executed in 5 forked instances of a pristine zygote (allocation preface, "
    "hash salt, clock script, RNG-burning checker varied) and 1 (quick) / 3 (thorough) fresh interpreters under other "
    "PYTHONHASHSEEDs; distinct = digest of (program, seed, digests); non-trivial = the program has >= 2 random values "
    "referenced only from requirements / behaviors, or rejection happened"
)
COMPONENTS = {
    "real": ["scenic parser/compiler", "Scenario dependency ordering", "requirement dependency collection",
             "rejection sampler incl. RNG save/restore around requirement checks", "WeightedAcceptanceChecker",
             "dynamics runtime (run-time draws)"],
    "stub": ["process instance: forked children of a pristine zygote / fresh subprocess interpreters",
             "clock of the requirement scheduler (SimClock with per-instance cost script)",
             "external simulator (SimWorld)"],
}
ASSUMPTIONS = [
    "salting the id-based __hash__ of scenic.core.distributions.Samplable re-orders sets of samplable values exactly as another address layout could; differences that need the salt are labelled hash-order, those reproduced by the allocation preface alone real-layout",
    "the instances forked from one zygote share PYTHONHASHSEED; string-hash randomisation is covered by the subprocess instances",
]

TIER = "quick"
PY = "/venv/bin/python"


def set_tier(t):
    global TIER
    TIER = t


prepare = c14.prepare  # pristine zygote; all Scenic work happens in children


def classify(v):
    return v.get("detail", {}).get("finding")


# ---------------------------------------------------------------------------
# one process instance (runs in a forked child or in a fresh interpreter)
# ---------------------------------------------------------------------------
def instance(job, cfg):
    """job: {src, top, mode2D, seed, nscenes, dyn: None | {tables, schedule, max_steps, timestep}}
    cfg: {prealloc, free_stride, salt, clock, burn}.  Returns list of digests."""
    import gc
    import random

    import numpy

    from simverif import dynrun, seams

    # allocation preface: shifts which addresses the program's objects get
    from scenic.core.distributions import Range, Samplable

    junk = [Range(0, i + 1) for i in range(cfg["prealloc"])]
    if cfg["free_stride"]:
        del junk[:: cfg["free_stride"]]
    gc.collect()
    restore = None
    if cfg["salt"]:
        from scenic.core.distributions import Distribution

        salt = cfg["salt"]
        restore = Samplable.__dict__.get("__hash__")
        salted = lambda self: hash((id(self) * salt) % 1000003)  # noqa: E731
        Samplable.__hash__ = salted
        restore_dist = Distribution.__dict__.get("__hash__")  # Distribution defines its own
        Distribution.__hash__ = salted
    try:
        import scenic
        from scenic.core.distributions import RejectionException
        from scenic.core.errors import InvalidScenarioError
        from scenic.core.sample_checking import WeightedAcceptanceChecker

        costs = cfg["clock"]
        clock = seams.SimClock(lambda n: costs[n % len(costs)])
        out = []
        with seams.patched_clock(clock):
            try:
                scenario = scenic.scenarioFromString(job["src"], scenario=job["top"], mode2D=job["mode2D"])
            except InvalidScenarioError as e:
                # e.g. two fixed objects that overlap: refused at compile time; that outcome
                # (and its message) has to be the same in every instance like any other
                return ["compile-refused:" + type(e).__name__ + ":" + str(e)[:200]]
            if cfg["burn"]:
                class Burning(WeightedAcceptanceChecker):
                    def checkRequirements(self, sample):
                        for _ in range(cfg["burn"]):
                            random.random()
                            numpy.random.random_sample()
                        return super().checkRequirements(sample)

                scenario.setSampleChecker(Burning(bufferSize=100))
            dynrun.set_env((job.get("dyn") or {}).get("tables", {}))
            random.seed(job["seed"])
            numpy.random.seed(job["seed"])
            first = None
            for i in range(job["nscenes"]):
                try:
                    scene, its = scenario.generate(maxIterations=40, verbosity=0)
                except RejectionException:
                    out.append("rejected")
                    continue
                if first is None:
                    first = scene
                out.append(c14.digest_of(c14.dump_scene(scene, its)))
            if job.get("dyn") and first is not None:
                d = job["dyn"]
                dynrun.set_env(d["tables"])
                o = dynrun.simulate_scene(first, d["schedule"], d["max_steps"], d["timestep"])
                out.append("sim:" + c14.digest_of(c14.sim_digest(o)))
        return out
    finally:
        if cfg["salt"]:
            if restore is None:
                del Samplable.__hash__
            else:
                Samplable.__hash__ = restore
            if restore_dist is None:
                del Distribution.__hash__
            else:
                Distribution.__hash__ = restore_dist


def subprocess_instance(job, cfg, hashseed):
    env = dict(os.environ)
    env["PYTHONHASHSEED"] = str(hashseed)
    err = ""
    for _attempt in range(2):   # a fresh interpreter killed/timed out under load is not a verdict: retry once
        try:
            r = subprocess.run([PY, "-m", "simverif.checks.c15"], input=json.dumps({"job": job, "cfg": cfg}),
                               capture_output=True, text=True, env=env, timeout=600,
                               cwd=os.path.dirname(os.path.dirname(os.path.dirname(os.path.abspath(__file__)))))
        except subprocess.TimeoutExpired as e:
            err = "timeout: %r" % (e,)
            continue
        for line in r.stdout.splitlines():
            if line.startswith("RESULT "):
                return json.loads(line[7:])
        err = "rc=%s stderr=%s" % (r.returncode, r.stderr[-1500:])
    raise RuntimeError("subprocess instance failed: " + err)


# ---------------------------------------------------------------------------
# the run (in the pristine worker: draws + children only)
# ---------------------------------------------------------------------------
def promote_job(tape):
    """Several objects without a behavior get one in the same step (override in a compose
    block); the behaviors draw random values, so the order in which the new agents are
    scheduled decides which of them gets which random number."""
    k = tape.intrange(2, 4, "promote.k")
    steps = tape.intrange(2, 4, "promote.steps")
    lines = ["from simverif.userlib import Tok", "behavior D():", "    while True:",
             "        _d = DiscreteRange(0, 99)", "        take Tok(str(_d))", "scenario Main():", "    setup:"]
    names = ["ego"] + [f"o{i}" for i in range(1, k)]
    for i, nm in enumerate(names):
        lines.append(f"        {nm} = new Object at ({3 * i}, 0, 0), with name 'o{i}'")
    lines.append("    compose:")
    if tape.chance(1, 2, "promote.wait_first"):
        lines.append("        wait")
    for nm in names:
        lines.append(f"        override {nm} with behavior D()")
    lines += ["        wait"] * (steps + 1)
    d = {"tables": {}, "schedule": [], "max_steps": steps + 2, "timestep": "1"}
    return {"src": "\n".join(lines) + "\n", "top": "Main", "mode2D": False, "dyn": d}, 2


DEPENDENT_DEFAULTS = """class Thing(Object):
    footprint: self.width * self.length + self.height + self.extra
    extra: Range(0, 1)
    width: Range(1, 2)
    length: Range(1, 2)
    height: Range(1, 2)
thing = new Thing at (40, 40), with requireVisible False
param thing_footprint = thing.footprint
"""


def make_job(tape):
    kind = tape.draw(4, "kind")
    if kind == 3:
        return promote_job(tape)
    if kind < 2:
        # bias: several requirements and few parameters, so that some random values are
        # referenced only from requirements; a continuous parameter makes the digest
        # sensitive to any change of the RNG stream
        g = fd.FDGen(tape, req_range=(2, 5), param_max=1)
        prog = g.program()
        src = fd.render(prog) + "param zz = Range(0, 1)\n"
        if "obj1 = new Object" in src and tape.chance(1, 2, "random_allowCollisions?"):
            # whether an overlap matters is itself random: the optional (time-weighted) blanket
            # collision check and the mandatory pairwise checks must agree about it, or the
            # outcome depends on which of them the checker happens to run first
            src = src.replace("obj1 = new Object at", "obj1 = new Object with allowCollisions Uniform(True, False), at", 1)
        if tape.chance(1, 2, "dependent_defaults?"):
            # a property default that depends on several random properties of the same
            # object: the order in which specifier resolution visits them must be fixed
            src += DEPENDENT_DEFAULTS
        # a block of independent random values that only requirements refer to: the order
        # in which they are sampled decides which of them gets which random number
        k = tape.intrange(0, 4, "reqonly.k")
        for i in range(k):
            hi = tape.intrange(3, 5, "reqonly.hi")
            src += f"w{i} = Uniform({', '.join(str(x) for x in range(1, hi + 1))})\n"
        for i in range(k):
            src += f"require w{i} {tape.choice(['<', '<=', '!='], 'reqonly.cmp')} {tape.intrange(2, 4, 'reqonly.c')}\n"
        if k and tape.chance(1, 2, "raising_requirement?"):
            # a requirement that rejects by *raising* (as a vector field evaluated outside its
            # domain does) instead of evaluating to false: everything the checker consumed before
            # it in that attempt must still be kept out of the user-visible random stream
            src += ("from scenic.core.distributions import RejectionException\n"
                    "def rj(x):\n    if x:\n        raise RejectionException('rejected inside a requirement')\n    return True\n"
                    f"require rj(w0 == {tape.intrange(1, 3, 'raising.c')})\n")
        used = fd.reachable(prog)
        out_nodes = set()
        for s in prog["stmts"]:
            if s[0] in ("param", "object") and s[2][0] == "n":
                out_nodes.add(s[2][1])
        req_only = 0
        for s in prog["stmts"]:
            if s[0] == "require":
                for o in (s[3], s[4]):
                    if o[0] == "n" and o[1] not in out_nodes and prog["nodes"][o[1]][0] in ("uniform", "options", "range", "resample", "starpick"):
                        req_only += 1
        return {"src": src, "top": None, "mode2D": prog["mode2D"], "dyn": None}, req_only + k
    g = dyngen.Gen(tape, dict(c19.FEAT, p_guards=1, w_draw=6))
    prog = g.program()
    src = dyn.render(prog)
    nobj = dyngen.count_objects(prog)
    ms = prog["max_steps"]
    d = {"tables": {str(k): v for k, v in g.tables(prog, ms + 2).items()}, "schedule": g.schedule(ms + 1, nobj),
         "max_steps": ms, "timestep": prog["timestep"]}
    return {"src": src, "top": None if prog["flat"] else "Main", "mode2D": False, "dyn": d}, 2


def make_cfg(tape, i):
    if i == 0:
        return {"prealloc": 0, "free_stride": 0, "salt": 0, "clock": [1e-3], "burn": 0}
    clock = [10.0 ** (-tape.draw(5, "clock.e")) for _ in range(tape.intrange(1, 5, "clock.n"))]
    return {
        "prealloc": tape.intrange(0, 300, "prealloc"),
        "free_stride": tape.draw(4, "free_stride"),
        "salt": 0 if i in (1, 2) else tape.intrange(1, 9973, "salt"),
        "clock": clock,
        "burn": tape.draw(4, "burn"),
    }


def run(tape):
    job, req_only = make_job(tape)
    job["seed"] = tape.intrange(0, 50, "seed")
    job["nscenes"] = tape.choice([1, 3, 5, 12], "nscenes")
    cfgs = [make_cfg(tape, i) for i in range(5)]
    stats = {"programs": 1, "kind:" + ("dyn" if job["dyn"] else "fd"): 1}
    results = []
    for cfg in cfgs:
        results.append(c14.forked(instance, job, cfg))
        stats["forked_instances"] = stats.get("forked_instances", 0) + 1
    nsub = 1 if TIER == "quick" else 3
    for k in range(nsub):
        hs = [1, 0, 4242][k] if k else tape.intrange(1, 100000, "hashseed")
        results.append(subprocess_instance(job, cfgs[min(k + 1, 4)], hs))
        cfgs.append(dict(cfgs[min(k + 1, 4)], hashseed=hs))
        stats["subprocess_instances"] = stats.get("subprocess_instances", 0) + 1
    violations = []
    base = results[0]
    for i, r in enumerate(results[1:], 1):
        if r != base:
            j = next(k for k in range(max(len(r), len(base))) if k >= len(r) or k >= len(base) or r[k] != base[k])
            cfg = cfgs[i]
            label = "hash-order" if cfg.get("salt") else ("hash-seed" if "hashseed" in cfg else "real-layout")
            violations.append({"clause": "instances-disagree", "detail": {
                "program": job["src"], "seed": job["seed"], "first_differing_item": j,
                "what": "simulation" if str(base[j] if j < len(base) else "").startswith("sim:") else f"scene #{j}",
                "instance_0": cfgs[0], f"instance_{i}": cfg, "label": label,
                "finding": None}})
            stats["disagreement:" + label] = stats.get("disagreement:" + label, 0) + 1
            break
    if any(x == "rejected" for x in base):
        stats["probe:sequence_with_rejection"] = 1
    if req_only >= 2:
        stats["probe:two_or_more_requirement_only_random_values"] = 1
    d = hashlib.blake2b(json.dumps([job, results[0]], sort_keys=True).encode(), digest_size=8).hexdigest()
    return {
        "violations": violations,
        "digest": d,
        "key": d,
        "nontrivial": req_only >= 2 or "rejected" in base,
        "stats": stats,
        "sample": {"program": job["src"], "seed": job["seed"], "nscenes": job["nscenes"], "configs": cfgs,
                   "digests_instance_0": base[:6]},
        "steps": len(results) * job["nscenes"],
        "simsec": 0.0,
    }


if __name__ == "__main__":
    # fresh-interpreter instance: job + cfg on stdin, digests on stdout
    data = json.loads(sys.stdin.read())
    res = instance(data["job"], data["cfg"])
    print("RESULT " + json.dumps(res))
