"""C19 — `do choose` / `do shuffle` and run-time random values follow the stated probabilities.

Seam: the branching RNG back end is active during Simulator.simulate, so every call the
runtime makes to `random.*` is a finite choice point with an exact rational probability;
the driver walks the whole choice tree of one simulation by re-execution.  Oracle: the
reference model (simverif.dyn.Ref) walks its own choice tree; the two exact laws over
(event log / actions / result) must be equal as Fractions.
"""

import hashlib
import json
from fractions import Fraction

from .. import dyn, dyngen, dynrun, seams, userlib
from . import dyncommon

ID = "C19"
LEVEL = "exploration"
TECHNIQUE = "deterministic simulation: branching RNG seam enumerates every RNG outcome of a run; exact rational law vs reference model"
BUDGET = {"quick": (4000, 60), "thorough": (400000, 1500)}
CHUNK = 8
MAX_LEAVES = 400
RULE = (
    "one run = one DYN program with do choose / do shuffle (2-4 sub-behaviours or sub-scenarios, list and "
    "weighted-dict forms, integer weights, step-dependent preconditions) and run-time draws from "
    "Uniform/Options/DiscreteRange, simulated for 1-3 environments; for each environment the RNG choice tree of "
    "the simulation is closed completely (<= 400 leaves, larger trees are skipped and counted, never partially "
    "compared); distinct = digest of (program, tables, law); non-trivial = the law has >= 2 outcomes"
)
COMPONENTS = {
    "real": dyncommon.COMPONENTS["real"] + ["distributions sampled at run time (Options/Uniform/DiscreteRange)"],
    "stub": dyncommon.COMPONENTS["stub"] + ["RNG back end (branching: every random.* call is an exact finite choice point)"],
}
ASSUMPTIONS = dyncommon.ASSUMPTIONS + [
    "random.random()/uniform() are stratified into 4 equiprobable mid-points; the fragment only uses choices/randint so this never matters",
]

FEAT = dict(
    w_choose=5, w_shuffle=5, w_draw=4, p_guards=5, p_grej=0, n_behaviors=(2, 4), n_subscenarios=(0, 3),
    n_monitors=(0, 1), n_agents=(1, 2), depth=2, block_len=(1, 3), max_steps=(2, 6),
    w_try=0, w_do=1, w_do_for=1, w_do_until=1, w_while=0, w_loop=1, w_if=1,
    p_termwhen=1, p_termsimwhen=1, p_termafter=1, p_ltl=0, p_record=1, w_require=0,
    w_terminate=1, w_terminatesim=0, p_until_random=3, p_flags=3,
)

prepare = dyncommon.prepare
classify = dyncommon.classify


def outcome_key(o):
    if o["kind"] == "ok":
        return json.dumps(
            ["ok", o["time"], o["termtype"], [list(map(list, s)) for s in o["actions"]],
             [list(e) for e in dynrun.norm_log(o["log"])]],
            default=str,
        )
    if o["kind"] == "exception":
        return json.dumps(["exception", o.get("exc"), o.get("msg")])
    return json.dumps([o["kind"], o.get("time")])


def impl_law(scene, tables, schedule, max_steps, timestep, raise_guards=False):
    law = {}
    nonexact = False
    side = 0

    def execute():
        userlib.reset()
        userlib.CTX.tables = {int(k): list(v) for k, v in tables.items()}
        return dynrun.simulate_scene(scene, schedule, max_steps, timestep, raise_guards)

    leaves = 0
    for o, p, rng in seams.walk_tree(execute, strata=4, max_leaves=MAX_LEAVES):
        leaves += 1
        nonexact = nonexact or rng.nonexact
        side += rng.side_calls
        k = outcome_key(o)
        law[k] = law.get(k, Fraction(0)) + p
        o.pop("sim", None), o.pop("world", None), o.pop("scene", None)
    return law, leaves, nonexact, side


class RefBrancher:
    def __init__(self, prefix):
        self.prefix = list(prefix)
        self.path = []
        self.prob = Fraction(1)

    def __call__(self, weights):
        total = sum(Fraction(w) for w in weights)
        k = len(self.path)
        i = self.prefix[k] if k < len(self.prefix) else 0
        self.path.append((i, len(weights)))
        self.prob *= Fraction(weights[i]) / total
        return i

    def next_prefix(self):
        for k in range(len(self.path) - 1, -1, -1):
            i, n = self.path[k]
            if i + 1 < n:
                return [p[0] for p in self.path[:k]] + [i + 1]
        return None


def ref_law(prog, tables, schedule, max_steps, pins, raise_guards=False):
    law = {}
    prefix = []
    leaves = 0
    while prefix is not None:
        br = RefBrancher(prefix)
        r = dyn.Ref(prog, tables, schedule, max_steps, pins=pins, rng=br, raise_guards=raise_guards).run()
        leaves += 1
        if leaves > 4 * MAX_LEAVES:
            raise dyn.Unsupported("reference tree too large")
        k = outcome_key(r)
        law[k] = law.get(k, Fraction(0)) + br.prob
        prefix = br.next_prefix()
    return law


def run(tape):
    import itertools
    import random

    import numpy

    g = dyngen.Gen(tape, FEAT)
    prog = g.program()
    src = dyn.render(prog)
    dynrun.sanitize()
    stats = {"programs": 1}
    try:
        scenario = dynrun.compile_prog(src, top=None if prog["flat"] else "Main")
    except Exception as e:  # noqa: BLE001
        msg = f"{type(e).__name__}: {e}"
        return {"violations": [{"clause": "compile-error", "detail": {"error": msg[:300], "finding": None}}],
                "digest": hashlib.blake2b((src + msg).encode(), digest_size=8).hexdigest(),
                "nontrivial": False, "stats": {"programs": 1, "result:compile-error": 1},
                "sample": {"program": src, "error": msg[:300]}}
    nobj = dyngen.count_objects(prog)
    n_env = tape.intrange(1, 3, "n_env")
    digest = hashlib.blake2b(src.encode(), digest_size=8)
    violations = []
    nontrivial = False
    sample = None
    steps = 0
    pin_names = sorted(dyn.DEFAULT_PINS)
    for e in range(n_env):
        max_steps = prog["max_steps"]
        tables = g.tables(prog, max_steps + 2)
        schedule = g.schedule(max_steps + 1, nobj)
        dynrun.set_env(tables)
        random.seed(e)
        numpy.random.seed(e)
        try:
            scene, _ = scenario.generate(maxIterations=1, verbosity=0)
        except Exception:  # noqa: BLE001  (no requirement at scene level in this fragment)
            stats["scene-reject"] = stats.get("scene-reject", 0) + 1
            continue
        try:
            # every second environment runs with raiseGuardViolations: a guard violation then raises,
            # but "no item is eligible" stays a rejection
            rg = e % 2 == 1
            ilaw, leaves, nonexact, side = impl_law(scene, tables, schedule, max_steps, prog["timestep"], rg)
        except seams.TreeTooLarge:
            stats["skipped:tree_too_large"] = stats.get("skipped:tree_too_large", 0) + 1
            dynrun.sanitize()
            continue
        stats["env_runs"] = stats.get("env_runs", 0) + 1
        stats["leaves"] = stats.get("leaves", 0) + leaves
        stats["probe:side_stream_calls"] = stats.get("probe:side_stream_calls", 0) + side
        if nonexact:
            stats["skipped:nonexact"] = stats.get("skipped:nonexact", 0) + 1
            continue
        if len(ilaw) >= 2:
            nontrivial = True
            stats["laws_with_2+_outcomes"] = stats.get("laws_with_2+_outcomes", 0) + 1
        if any(json.loads(k)[0] == "reject" for k in ilaw):
            stats["probe:law_with_rejection"] = stats.get("probe:law_with_rejection", 0) + 1
        verdict = "diff"
        rlaw = None
        try:
            for combo in itertools.product((True, False), repeat=len(pin_names)):
                rlaw = ref_law(prog, tables, schedule, max_steps, dict(zip(pin_names, combo)), rg)
                if rlaw == ilaw:
                    verdict = "ok" if all(combo) else "pinned"
                    break
        except dyn.Unsupported:
            verdict = "unsupported"
        stats["verdict:" + verdict] = stats.get("verdict:" + verdict, 0) + 1
        digest.update(json.dumps([tables, schedule, sorted((k, str(v)) for k, v in ilaw.items())], sort_keys=True).encode())
        steps += leaves
        desc = {
            "program": src, "timestep": prog["timestep"], "max_steps": max_steps,
            "tables": {str(k): "".join("1" if b else "0" for b in v) for k, v in tables.items()},
            "schedule": schedule,
            "impl_law": sorted((str(p), k[:300]) for k, p in ilaw.items())[:12],
        }
        if sample is None:
            sample = desc
        bad = dynrun.sanitize()
        if bad or getattr(scenario.dynamicScenario, "_isRunning", False):
            stats["probe:state_leak_after_run_recovered"] = stats.get("probe:state_leak_after_run_recovered", 0) + 1
            dynrun._COMPILED.clear()
            scenario = dynrun.compile_prog(src, top=None if prog["flat"] else "Main", cache=False)
        if verdict == "diff":
            rl = ref_law(prog, tables, schedule, max_steps, None, rg)
            only_impl = sorted((str(p), k[:400]) for k, p in ilaw.items() if rl.get(k) != p)[:6]
            only_ref = sorted((str(p), k[:400]) for k, p in rl.items() if ilaw.get(k) != p)[:6]
            sample = desc
            violations.append({"clause": "law-mismatch",
                               "detail": {"impl_only_or_different": only_impl, "ref_only_or_different": only_ref,
                                          "finding": None}})
            break
    return {
        "violations": violations,
        "digest": digest.hexdigest(),
        "key": digest.hexdigest(),
        "nontrivial": nontrivial,
        "stats": stats,
        "sample": sample,
        "steps": steps,
        "simsec": 0.0,
    }
