"""C14 — simulations leave scenes, scenarios and global state untouched, even on failure.

The central fault-injection target.  One run = one *history*: a sequence of operations
(compile, generate, simulate with an injected fault, compile of another program in 2D
mode, compile of a damaged text, encode/decode, re-simulate ...) executed in ONE process,
where exceptions / rejections are injected at tape-chosen hits of tape-chosen fault sites
(requirement, specifier argument, setup block, compose block, behavior, monitor, guard,
interrupt condition, record expression, action application, simulator create / schedule /
executeActions / step / read-back / destroy).

Oracle (no expected values are written down by hand):
  1 at-rest     after every operation the interpreter's global state is at rest
  2 untouched   every property of every object of the scene and of the scenario reads the
                same after a simulation as before, however it ended
  3 override    golden (fault-free) run vs the reference model incl. records of every
                overridden property (revert when the overriding scenario ends)
  4 fresh       the result digest of every operation equals the digest of the same
                operation executed in a process forked from a pristine interpreter
                (the reference model is literally "a fresh process")
  5 same seed   re-running a faulted simulation without the fault gives the golden result
                (a special case of 4, generated on purpose)

Process structure: the pool worker never executes a Scenic operation itself; the
fault-free counting run, every reference operation and the history under test run in
children forked from the pristine worker.
"""

import hashlib
import json
import os
import pickle
import random
import sys

from .. import dyn, dyngen, dynrun, userlib
from ..tape import Tape
from . import dyncommon

ID = "C14"
LEVEL = "fault_enumeration"
TECHNIQUE = "deterministic simulation with fault injection: seeded operation+fault histories in one process vs fresh-forked-process reference and state-at-rest invariants"
BUDGET = {"quick": (3000, 50), "thorough": (300000, 1500)}
CHUNK = 1
MAX_WORKERS = 4  # fork-heavy runs do not scale beyond ~4 parallel workers in this sandbox (measured)
SHRINK_BUDGET = 80  # one history costs ~4 forks
SHRINK_SECONDS = 60
SELFTEST_N = {"quick": 5, "thorough": 12}
RULE = (
    "one run = one history of 5-9 operations on one process (compile / generate / simulate with an injected fault / "
    "re-simulate / other program in 2D mode / damaged program text / scene round trip) over a seeded DYN program with "
    "overrides, try-interrupt, guards and fault points at every user- and simulator-code site; faults = (site, hit "
    "number <= hits counted in a fault-free run, exception class) from the tape (thorough: every (site, hit) pair of "
    "the program, capped at 40); distinct = digest of (programs, operations, faults, outcomes); non-trivial = at "
    "least one injected fault actually fired and a later operation ran"
)
COMPONENTS = {
    "real": dyncommon.COMPONENTS["real"] + ["object dynamic proxies", "override bookkeeping", "veneer global state", "serializer (round trip op)"],
    "stub": dyncommon.COMPONENTS["stub"] + ["fault points (userlib.fault) inside generated user code and the stub simulator"],
}
ASSUMPTIONS = [
    "'a fresh process' = a forked child of a zygote that has imported Scenic and, to warm up lazy imports, compiled/sampled/simulated one trivial scenario successfully and was checked to be at rest afterwards; the zygote never executes a generated program",
    "which exception a damaged program text raises is not judged here (C10); only the process state afterwards and the equality with a fresh process",
    "object properties are compared through a canonical dump (numbers by repr, vectors component-wise, other objects by type name)",
    "garbage collection is forced after every operation so that abandoned generators are finalised at a deterministic point",
] + dyncommon.ASSUMPTIONS[:1]

FEAT = dict(
    w_try=3, p_guards=2, p_grej=1, w_override=3, override_behavior=True, p_recordprop=5, p_fault_stmt=2, ftab=True,
    p_spec_fault=3, p_require_setup=3, n_subscenarios=(0, 2), n_monitors=(0, 1), n_agents=(1, 2),
    n_behaviors=(1, 3), depth=2, block_len=(1, 3), max_steps=(2, 6), compose_try_waits_only=True,
    p_ltl=1, p_sub_setup_reqs=3, modular=3, flat=1, p_occlusion=4, p_ego=4,
)
FEAT2 = dict(FEAT, w_override=0, p_recordprop=0, p_spec_fault=0, n_subscenarios=(0, 1), depth=1, p_occlusion=0)
BUG_MODELS = ("override_first_only",)
dyncommon.FINDING_KEYS["override_first_only"] = "second-override-of-same-object-not-reverted"

EXC = ["RejectionException", "RejectSimulationException", "InvariantViolation",
       "SimulationCreationError", "RuntimeError", "ZeroDivisionError"]
SIM_SITES = ["createObject", "schedule", "executeActions", "applyTo", "step", "getProperties", "destroy"]
TIER = "quick"


def set_tier(t):
    global TIER
    TIER = t


def prepare():
    """The pool worker is the zygote of every child.  It warms the interpreter up with one
    trivial, successful compile/generate/simulate (lazy imports, parser tables) and must
    be at rest afterwards; everything else happens in forked children."""
    import gc

    import scenic

    from .. import simworld

    sc = scenic.scenarioFromString(
        "from simverif.userlib import Tok\nbehavior W():\n    take Tok('w')\nego = new Object with behavior W()\n"
    )
    scene, _ = sc.generate(maxIterations=1)
    userlib.reset()
    simworld.SimWorld().simulate(scene, maxSteps=1)
    userlib.reset()
    del scene, sc
    gc.collect()
    assert not dynrun.veneer_dirty(), dynrun.veneer_dirty()
    gc.freeze()


classify = dyncommon.classify


# ---------------------------------------------------------------------------
# process helpers
# ---------------------------------------------------------------------------
def forked(fn, *args):
    """Run fn(*args) in a forked child; return its (picklable) result."""
    r, w = os.pipe()
    pid = os.fork()
    if pid == 0:
        code = 0
        try:
            os.close(r)
            try:
                out = ("ok", fn(*args))
            except BaseException as e:  # noqa: BLE001
                import traceback

                out = ("err", "".join(traceback.format_exception(e))[-3000:])
            with os.fdopen(w, "wb") as f:
                pickle.dump(out, f)
        except BaseException:  # noqa: BLE001
            code = 3
        finally:
            os._exit(code)
    os.close(w)
    with os.fdopen(r, "rb") as f:
        data = f.read()
    os.waitpid(pid, 0)
    if not data:
        raise RuntimeError("forked child died without a result")
    kind, val = pickle.loads(data)
    if kind == "err":
        raise RuntimeError("forked child failed:\n" + val)
    return val


def make_exc(name):
    from scenic.core.distributions import RejectionException
    from scenic.core.dynamics.guards import InvariantViolation
    from scenic.core.dynamics.utils import RejectSimulationException
    from scenic.core.simulators import SimulationCreationError

    if name == "InvariantViolation":
        return lambda: InvariantViolation(object(), 0)
    cls = {"RejectionException": RejectionException, "RejectSimulationException": RejectSimulationException,
           "SimulationCreationError": SimulationCreationError, "RuntimeError": RuntimeError,
           "ZeroDivisionError": ZeroDivisionError}[name]
    return lambda: cls("injected fault")


def plan_of(fault):
    """fault = None | [site, hit, exception name]"""
    if not fault:
        return None
    site, hit, exc = fault
    return {site: {hit: make_exc(exc)}}


# ---------------------------------------------------------------------------
# canonical dumps
# ---------------------------------------------------------------------------
def canon(v, depth=0):
    from scenic.core.dynamics.behaviors import Behavior
    from scenic.core.vectors import Orientation, Vector

    if isinstance(v, (bool, int, str, type(None))):
        return v
    if isinstance(v, float):
        return repr(float(v))  # (numpy.float64 is a float too; equal values compare equal)
    if isinstance(v, Vector):
        return ["V"] + [repr(float(c)) for c in v]
    if isinstance(v, Orientation):
        return ["O"] + [repr(float(a)) for a in v.eulerAngles]
    if isinstance(v, Behavior):
        return ["B", type(v).__name__, bool(v._isRunning), v._agent is None]
    if isinstance(v, (list, tuple)) and depth < 3:
        return [canon(x, depth + 1) for x in v]
    if isinstance(v, dict) and depth < 3:
        return {str(k): canon(x, depth + 1) for k, x in sorted(v.items(), key=lambda kv: str(kv[0]))}
    return ["T", type(v).__name__]


def snap_objects(objs):
    out = []
    for o in objs:
        d = {p: canon(getattr(o, p)) for p in sorted(o.properties)}
        d["_proxy_is_self"] = getattr(o, "_dynamicProxy", o) is o
        out.append(d)
    return out


def dump_scene(scene, iterations):
    return {"iterations": iterations, "objects": snap_objects(scene.objects),
            "params": canon(dict(scene.params))}


def digest_of(x):
    return hashlib.blake2b(json.dumps(x, sort_keys=True, default=repr).encode(), digest_size=8).hexdigest()


# ---------------------------------------------------------------------------
# operations (executed in children only)
# ---------------------------------------------------------------------------
GEN_ENV = {"P1": 0, "P2": 2}  # environment under which scenes of a program are sampled


class State:
    def __init__(self, progs, envs):
        self.progs = progs  # pid -> {"src", "top", "mode2D", "prog"}
        self.envs = envs
        self.scenarios = {}
        self.scenes = {}


def op_compile(st, pid, fresh=True, fault=None):
    import scenic

    p = st.progs[pid]
    if fresh or pid not in st.scenarios:
        hd = p.get("helper_dir")
        if hd:
            sys.path.insert(0, hd)  # the program imports a helper Scenic module from there
        userlib.CTX.fault_plan = plan_of(fault) or {}
        try:
            sc = scenic.scenarioFromString(p["src"], scenario=p["top"], mode2D=p["mode2D"])
        finally:
            userlib.CTX.fault_plan = {}
            if hd and hd in sys.path:
                sys.path.remove(hd)
        st.scenarios[pid] = sc
        for key in [k for k in st.scenes if k[0] == pid]:
            del st.scenes[key]  # scenes belong to the scenario object that sampled them
    return st.scenarios[pid]


def op_generate(st, pid, seed, env, fault=None, reuse=False):
    import numpy

    key = (pid, seed)
    if reuse and key in st.scenes:
        return st.scenes[key]
    sc = op_compile(st, pid, fresh=False)
    # requirements evaluated at sampling read the tables at step 0: scenes of a program
    # are always sampled under the same environment, whatever environment simulates them
    env = st.envs[GEN_ENV[pid]]
    dynrun.set_env(env["tables"], plan_of(fault))
    random.seed(seed)
    numpy.random.seed(seed)
    scene, its = sc.generate(maxIterations=6, verbosity=0)
    st.scenes[key] = (scene, its)
    return st.scenes[key]


def sim_digest(o):
    d = {k: v for k, v in o.items() if k in ("kind", "time", "actions", "ntraj", "termtype", "records", "exc", "who")}
    d["log"] = [list(e) for e in o.get("log", []) if e[1] != "fault"]
    return d


def exec_op(st, op, envs):
    """Execute one operation; returns (json-able outcome, hits, fired)."""
    kind = op[0]
    userlib.reset()
    try:
        if kind == "compile":
            sc = op_compile(st, op[1], fresh=True, fault=op[2] if len(op) > 2 else None)
            out = {"ok": True, "nobj": len(sc.objects), "params": canon(dict(sc.params))}
        elif kind == "compile_bad":
            import scenic

            try:
                scenic.scenarioFromString(op[1], scenario=None)
                out = {"ok": True}
            except BaseException as e:  # noqa: BLE001 - any exception is an accepted outcome here
                out = {"exception": type(e).__name__}
        elif kind == "generate":
            _, pid, seed, envid, fault = op
            st.scenes.pop((pid, seed), None)
            scene, its = op_generate(st, pid, seed, envs[envid], fault)
            out = dump_scene(scene, its)
            if fault:
                # later simulations of this seed start from a fault-free scene again
                st.scenes.pop((pid, seed), None)
        elif kind == "simulate":
            _, pid, seed, envid, fault, rg = op
            env = envs[envid]
            scene, _ = op_generate(st, pid, seed, env, None, reuse=True)
            dynrun.set_env(env["tables"], plan_of(fault))
            p = st.progs[pid]["prog"]
            o = dynrun.simulate_scene(scene, env["schedule"], p["max_steps"], p["timestep"], raise_guards=rg)
            out = sim_digest(o)
        elif kind == "roundtrip":
            _, pid, seed, envid = op
            scene, its = op_generate(st, pid, seed, envs[envid], None, reuse=True)
            sc = st.scenarios[pid]
            data = sc.sceneToBytes(scene)
            scene2 = sc.sceneFromBytes(data)
            out = {"equal": dump_scene(scene2, its) == dump_scene(scene, its), "len": len(data)}
        else:
            raise ValueError(kind)
    except Exception as e:  # noqa: BLE001 - the outcome of an operation may be an exception
        out = {"exception": type(e).__name__, "msg": str(e)[:120]}
    return out, dict(userlib.CTX.hits), list(userlib.CTX.fired)


def chain_for(op):
    """Minimal dependency chain of an operation in a fresh process."""
    kind = op[0]
    if kind == "compile" and len(op) > 2 and op[2]:
        return [op]
    if kind in ("compile", "compile_bad"):
        return [op]
    if kind in ("generate", "roundtrip"):
        return [("compile", op[1]), op]
    return [("compile", op[1]), op]  # simulate generates its scene itself (fault-free)


def child_reference(progs, envs, op):
    import gc

    gc.collect()
    st = State(progs, envs)
    out = None
    for o in chain_for(op):
        out, _, _ = exec_op(st, o, envs)
    return out


def child_count(progs, envs, pid, seed, envid, rg, judge):
    """Fault-free golden run with hit counting, plus the reference-model comparison."""
    st = State(progs, envs)
    exec_op(st, ("compile", pid), envs)
    g_out, g_hits, _ = exec_op(st, ("generate", pid, seed, envid, None), envs)
    env = envs[envid]
    res = {"gen_hits": g_hits, "gen_ok": "exception" not in g_out}
    if "exception" in g_out:
        res["sim_hits"] = {}
        return res
    scene, _ = st.scenes[(pid, seed)]
    dynrun.set_env(env["tables"], None)
    p = progs[pid]["prog"]
    o = dynrun.simulate_scene(scene, env["schedule"], p["max_steps"], p["timestep"], raise_guards=rg)
    res["sim_hits"] = dict(userlib.CTX.hits)
    res["golden"] = sim_digest(o)
    if judge:
        verdict, info, ref, finding = dynrun.judge(
            p, o, env["tables"], env["schedule"], p["max_steps"], bug_models=BUG_MODELS,
            ref_kwargs={"raise_guards": rg})
        res["judge"] = (verdict, [(c, {k: v for k, v in d.items()}) for c, d in (info or [])] if verdict == "diff" else None,
                        dyncommon.strip(ref) if (ref and verdict == "diff") else None, finding)
    return res


def child_history(progs, envs, ops):
    """The history under test: all operations in one process, invariants after each."""
    import gc

    st = State(progs, envs)
    results = []
    problems = []
    for i, op in enumerate(ops):
        before = None
        if op[0] == "simulate":
            # make sure the scene exists before taking the snapshot
            try:
                scene, _ = op_generate(st, op[1], op[2], envs[op[3]], None, reuse=True)
                sc = st.scenarios[op[1]]
                before = (snap_objects(scene.objects), snap_objects(sc.objects), canon(dict(scene.params)))
            except Exception:  # noqa: BLE001
                before = None
        out, hits, fired = exec_op(st, op, envs)
        gc.collect()
        results.append({"out": out, "fired": fired})
        dirty = dynrun.veneer_dirty()
        if dirty:
            problems.append({"clause": "state-not-at-rest", "op_index": i, "op": list(map(str, op))[:2],
                             "dirty": {k: repr(_veneer(k))[:80] for k in dirty}})
            dynrun.sanitize()  # report once, then let the history continue
        ds = getattr(st.scenarios.get(op[1]) if op[0] != "compile_bad" else None, "dynamicScenario", None)
        if ds is not None and getattr(ds, "_isRunning", False):
            problems.append({"clause": "scenario-left-running", "op_index": i, "op": list(map(str, op))[:2]})
        if before is not None and (op[1], op[2]) in st.scenes:
            scene, _ = st.scenes[(op[1], op[2])]
            sc = st.scenarios[op[1]]
            after = (snap_objects(scene.objects), snap_objects(sc.objects), canon(dict(scene.params)))
            if after != before:
                diff = first_diff(before, after)
                problems.append({"clause": "objects-changed-by-simulation", "op_index": i, "diff": diff,
                                 "outcome": out.get("kind") or out.get("exception")})
        if "simverif.userlib" not in sys.modules:
            problems.append({"clause": "module-purged", "op_index": i})
    return results, problems


def _veneer(k):
    import scenic.syntax.veneer as v

    return getattr(v, k)


def first_diff(a, b, path=""):
    if type(a) != type(b):
        return {"path": path, "before": repr(a)[:100], "after": repr(b)[:100]}
    if isinstance(a, dict):
        for k in sorted(set(a) | set(b)):
            if a.get(k) != b.get(k):
                return first_diff(a.get(k), b.get(k), f"{path}.{k}")
    if isinstance(a, (list, tuple)):
        if len(a) != len(b):
            return {"path": path, "before_len": len(a), "after_len": len(b)}
        for i, (x, y) in enumerate(zip(a, b)):
            if x != y:
                return first_diff(x, y, f"{path}[{i}]")
    return {"path": path, "before": repr(a)[:100], "after": repr(b)[:100]}


# ---------------------------------------------------------------------------
# the run (in the pristine worker: draws + forks only)
# ---------------------------------------------------------------------------
def damage(tape, src):
    lines = src.split("\n")
    kind = tape.draw(4, "damage.kind")
    if kind == 0:  # truncate
        cut = tape.intrange(1, max(1, len(src) - 1), "damage.cut")
        return src[:cut]
    i = tape.draw(len(lines), "damage.line")
    if kind == 1:  # delete a word
        words = lines[i].split(" ")
        if words:
            words.pop(tape.draw(len(words), "damage.word"))
        lines[i] = " ".join(words)
    elif kind == 2:  # re-indent
        lines[i] = "   " + lines[i]
    else:  # drop the line
        lines.pop(i)
    return "\n".join(lines)


def make_env(g, prog, nobj):
    ms = prog["max_steps"]
    return {"tables": g.tables(prog, ms + 2), "schedule": g.schedule(ms + 1, nobj)}


def choose_fault(tape, hits, what):
    sites = sorted(s for s, n in hits.items() if n > 0)
    if not sites:
        return None
    site = tape.choice(sites, f"{what}.site")
    hit = tape.intrange(1, hits[site], f"{what}.hit")
    exc = tape.choice(EXC, f"{what}.exc")
    return [site, hit, exc]


HELPER = """from simverif.userlib import fault
fault('model')
param helperParam = 7
"""


def run(tape):
    """(the helper Scenic module that P1 may import lives in a scratch directory outside
    /repo and /verif, removed when the run is over)"""
    import shutil
    import tempfile

    hd = tempfile.mkdtemp(prefix="c14_") if tape.chance(1, 2, "helper_module?") else None
    try:
        if hd:
            with open(os.path.join(hd, "c14helper.scenic"), "w") as f:
                f.write(HELPER)
        return _run(tape, hd)
    finally:
        if hd:
            shutil.rmtree(hd, ignore_errors=True)


def _run(tape, helper_dir):
    g1 = dyngen.Gen(tape, FEAT)
    prog1 = g1.program()
    src1 = dyn.render(prog1)
    if helper_dir:
        # import of a Scenic module + a fault point at top level (both run at compile time)
        lines = src1.split("\n")
        k = max(i for i, ln in enumerate(lines) if ln.startswith("from simverif")) + 1
        # (as a plain import or as the program's world model: `model` has its own global state)
        how = "model c14helper" if tape.chance(1, 2, "helper.as_model") else "import c14helper"
        lines[k:k] = [how, "fault('toplevel')"]
        src1 = "\n".join(lines)
    global _CUR_PROG
    _CUR_PROG = prog1
    g2 = dyngen.Gen(tape, FEAT2)
    prog2 = g2.program()
    prog2["mode2D"] = True
    src2 = dyn.render(prog2)
    progs = {
        "P1": {"src": src1, "top": None if prog1["flat"] else "Main", "mode2D": False, "prog": prog1,
               "helper_dir": helper_dir},
        "P2": {"src": src2, "top": None if prog2["flat"] else "Main", "mode2D": True, "prog": prog2},
    }
    n1, n2 = dyngen.count_objects(prog1), dyngen.count_objects(prog2)
    envs = [make_env(g1, prog1, n1), make_env(g1, prog1, n1), make_env(g2, prog2, n2)]
    seed_a = tape.intrange(0, 3, "seed.a")
    rg = bool(tape.chance(1, 3, "raiseGuards"))
    stats = {"histories": 0, "programs": 2}
    violations = []

    counted = forked(child_count, progs, envs, "P1", seed_a, 0, rg, not prog1.get("has_behavior_override"))
    stats["golden_runs"] = 1
    j = counted.get("judge")
    if j:
        stats["golden:verdict:" + j[0]] = 1
        if j[0] == "diff":
            fkey = dyncommon.FINDING_KEYS.get(j[3]) if j[3] else None
            for clause, detail in j[1]:
                d = dict(detail)
                d["ref_outcome"] = j[2]
                d["finding"] = fkey
                violations.append({"clause": "golden-" + clause, "detail": d})

    sim_hits = dict(counted.get("sim_hits", {}))
    gen_hits = dict(counted.get("gen_hits", {}))
    # which faults to inject into the first simulation of the history
    if TIER == "thorough" and not tape.chance(1, 4, "enum.skip"):
        pairs = [(s, h) for s in sorted(sim_hits) for h in range(1, sim_hits[s] + 1)][:40]
        first_faults = [[s, h, EXC[(i + tape.draw(len(EXC), "enum.rot")) % len(EXC)]] for i, (s, h) in enumerate(pairs)]
        if not first_faults:
            first_faults = [None]
    else:
        first_faults = [choose_fault(tape, sim_hits, "f1") if tape.chance(7, 8, "f1?") else None]

    bad_src = damage(tape, src1)
    follow = []
    nf = tape.intrange(2, 5, "n_follow")
    seed_b = seed_a + 1 + tape.draw(3, "seed.b")
    seed_c = tape.intrange(0, 3, "seed.c")
    for _ in range(nf):
        k = tape.weighted([1, 1, 1, 1, 1, 1, 3 if helper_dir else 1, 1, 1], "follow.kind")
        if k == 0:
            follow.append(("simulate", "P1", seed_a, 0, None, rg))
        elif k == 1:
            follow.append(("simulate", "P1", seed_a, 1, choose_fault(tape, sim_hits, "f2"), rg))
        elif k == 2:
            follow.append(("generate", "P1", seed_b, 0, choose_fault(tape, gen_hits, "fg") if tape.chance(1, 2, "fg?") else None))
        elif k == 3:
            follow.append(("simulate", "P1", seed_b, 1, None, rg))
        elif k == 4:
            follow.append(("compile", "P2"))
            follow.append(("simulate", "P2", seed_c, 2, None, False))
        elif k == 5:
            follow.append(("compile_bad", bad_src))
        elif k == 6:
            cf = None
            if helper_dir and tape.chance(2, 3, "compile.fault?"):
                cf = [tape.choice(["toplevel", "model"], "compile.site"), 1, tape.choice(EXC, "compile.exc")]
            follow.append(("compile", "P1", cf))
            if cf:
                # a failed compile must not influence the next compile of the same program
                follow.append(("compile", "P1", None))
        elif k == 7:
            follow.append(("roundtrip", "P1", seed_a, 0))
        else:
            follow.append(("generate", "P1", seed_a, 0, None))
    follow.append(("simulate", "P1", seed_a, 0, None, rg))  # clause 5: same seed, no fault

    ref_picks = [tape.draw(64, "ref.pick") for _ in range(1 if TIER == "quick" else 3)]
    digest = hashlib.blake2b((src1 + src2).encode(), digest_size=8)
    sample = None
    nontrivial = False
    steps = 0
    ref_cache = {}
    for ff in first_faults:
        ops = [("compile", "P1"), ("generate", "P1", seed_a, 0, None), ("simulate", "P1", seed_a, 0, ff, rg)] + follow
        results, problems = forked(child_history, progs, envs, ops)
        stats["histories"] += 1
        stats["operations"] = stats.get("operations", 0) + len(ops)
        fired_any = False
        for op, r in zip(ops, results):
            for site, hit, exc in r["fired"]:
                fired_any = True
                cls = "sim" if site in SIM_SITES else site
                stats[f"fault_fired:{cls}"] = stats.get(f"fault_fired:{cls}", 0) + 1
                stats[f"fault_exc:{exc}"] = stats.get(f"fault_exc:{exc}", 0) + 1
            o = r["out"]
            stats["op:" + op[0]] = stats.get("op:" + op[0], 0) + 1
            if op[0] == "simulate":
                oc = "simulate_outcome:" + str(o.get("kind") or o.get("exception"))
                stats[oc] = stats.get(oc, 0) + 1
                steps += o.get("time", 0) or 0
        if fired_any:
            nontrivial = True
        for pr in problems:
            d = dict(pr)
            clause = d.pop("clause")
            d["finding"] = state_finding(clause, d, ops)
            d["ops"] = [describe(o) for o in ops]
            violations.append({"clause": clause, "detail": d})
        # fresh-process equivalence.  Free references first: the fault-free golden
        # simulation was executed by the counting child, which is a fresh process.
        # Forked references (expensive here: ~0.3 s each) for the last operation and
        # for tape-chosen other ones; identical fault-free operations inside the history
        # must agree with each other in any case.
        golden_key = json.dumps(("simulate", "P1", seed_a, 0, None, rg), default=str)
        if "golden" in counted:
            ref_cache.setdefault(golden_key, counted["golden"])
        chosen = {len(ops) - 1} | {3 + (x % max(1, len(ops) - 3)) for x in ref_picks}
        seen_in_history = {}
        for i, (op, r) in enumerate(zip(ops, results)):
            key = json.dumps(op, default=str)
            faultless = not any(isinstance(x, list) for x in op)
            if key not in ref_cache and faultless and key in seen_in_history:
                ref_cache[key] = seen_in_history[key]  # earlier identical op of this history
            if key not in ref_cache:
                if i not in chosen:
                    if faultless:
                        seen_in_history.setdefault(key, r["out"])
                    continue
                ref_cache[key] = forked(child_reference, progs, envs, op)
                stats["reference_forks"] = stats.get("reference_forks", 0) + 1
            stats["ops_compared_with_reference"] = stats.get("ops_compared_with_reference", 0) + 1
            ref = ref_cache[key]
            if digest_of(ref) != digest_of(r["out"]):
                violations.append({"clause": "differs-from-fresh-process", "detail": {
                    "op_index": i, "op": describe(op), "history": [describe(o) for o in ops[:i]],
                    "in_history": brief(r["out"]), "fresh": brief(ref), "diff": first_diff(ref, r["out"]),
                    "finding": None}})
                break
        digest.update(json.dumps([[describe(o) for o in ops], [digest_of(r["out"]) for r in results]]).encode())
        if sample is None or violations:
            sample = {"P1": src1, "P2_2D": src2[:1500], "ops": [describe(o) for o in ops],
                      "outcomes": [brief(r["out"]) for r in results],
                      "fired": [r["fired"] for r in results],
                      "env0_tables": {str(k): "".join("1" if b else "0" for b in v) for k, v in envs[0]["tables"].items()}}
        if violations:
            break
    # consequences of a recorded finding inside the same history: once the scene object itself
    # has been left changed, later operations on that scene differ from a fresh process
    K = "overlapping-overrides-of-parallel-scenarios-leave-scene-changed"
    first = min((v["detail"].get("op_index", 1 << 30) for v in violations if v["detail"].get("finding") == K), default=None)
    if first is not None:
        for v in violations:
            if (v["detail"].get("finding") is None and v["clause"] in ("differs-from-fresh-process", "objects-changed-by-simulation")
                    and v["detail"].get("op_index", -1) > first):
                v["detail"]["finding"] = K
                v["detail"]["consequence_of_op"] = first
    return {
        "violations": violations,
        "digest": digest.hexdigest(),
        "key": digest.hexdigest(),
        "nontrivial": nontrivial,
        "stats": stats,
        "sample": sample,
        "steps": steps,
        "simsec": steps * float(prog1["timestep"]),
    }


def describe(op):
    if op[0] == "compile_bad":
        return ["compile_bad", f"<damaged P1, {len(op[1])} chars>"]
    return [str(x) if not isinstance(x, (list, type(None), int, bool)) else x for x in op]


def brief(o):
    s = json.dumps(o, default=repr, sort_keys=True)
    return s if len(s) < 700 else s[:700] + "..."


_CUR_PROG = None  # the DYN program P1 of the run being judged (for structural matchers)


def _walk(stmts):
    for st in stmts or []:
        yield st
        op = st[0]
        if op == "if":
            yield from _walk(st[2])
            yield from _walk(st[3])
        elif op == "loop":
            yield from _walk(st[2])
        elif op == "while":
            yield from _walk(st[1])
        elif op == "try":
            yield from _walk(st[1])
            for h in st[2]:
                yield from _walk(h[1])


def parallel_overlap_props(prog):
    """Properties of the ego that two operands of one parallel `do A(), B()` both override
    (directly or through scenarios they invoke): their lifetimes need not be nested."""
    if not prog or not prog.get("ego"):
        return set()
    defs = {sc["name"]: sc for sc in prog["scenarios"]}

    def own(sc):
        return {st[2] for st in list(sc["setup"]) + list(_walk(sc["compose"])) if st[0] == "override" and st[1] == "ego"}

    def callees(sc):
        out = []
        for st in _walk(sc["compose"]):
            if st[0] == "do":
                out += [n for n in st[1]]
            elif st[0] in ("choose", "shuffle"):
                out += [n for n, _ in st[1]]
        return [n for n in out if n in defs]

    def closure_props(name, seen=None):
        seen = set() if seen is None else seen
        if name in seen or name not in defs:
            return set()
        seen.add(name)
        props = own(defs[name])
        for c in callees(defs[name]):
            props |= closure_props(c, seen)
        return props

    out = set()
    for sc in prog["scenarios"]:
        for st in _walk(sc["compose"]):
            if st[0] == "do" and len(st[1]) >= 2:
                sets = [closure_props(n) for n in st[1]]
                for i in range(len(sets)):
                    for j in range(i + 1, len(sets)):
                        out |= sets[i] & sets[j]
    return out


def state_finding(clause, d, ops):
    """Call-site matchers for state-leak findings (kept specific on purpose)."""
    if clause == "objects-changed-by-simulation":
        path = str((d.get("diff") or {}).get("path", ""))
        if any(path.endswith("." + pr) for pr in parallel_overlap_props(_CUR_PROG)):
            return "overlapping-overrides-of-parallel-scenarios-leave-scene-changed"
    if clause == "state-not-at-rest":
        dirty = d.get("dirty", {})
        if set(dirty) == {"currentBehavior"}:
            return "stale-currentBehavior-after-abandoned-sub-behaviour"
    if clause == "scenario-left-running":
        return "top-level-scenario-left-running-after-guard-violation-at-start"
    return None
