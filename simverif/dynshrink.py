"""Structural minimisation of a failing DYN case (program + truth tables + schedule).

The tape shrinker (tape.shrink) works on the decision list; for DYN programs a deletion
in the middle of the list shifts every later decision, so big programs shrink badly.
This second stage works on the decoded case itself and only proposes candidates that
stay inside the generator's well-formedness envelope (so a candidate can never fail for
a reason the generator could not have produced):

  * never delete a ``bind`` statement (later statements name the bound instance);
  * never delete the first statement of a ``while`` body or of an interrupt handler
    (it is the take/wait that keeps the loop / a re-firing handler from spinning);
  * a try keeps at least one handler (or is replaced by its body);
  * loops are never unwrapped (their bodies may contain break/continue);
  * a behavior / monitor / compose body keeps at least one yielding statement;
  * objects are never deleted (schedule codes and overrides refer to them).

`still_fails(case)` is supplied by the engine: same clause, same finding key.
"""

import copy
import json
import re
import time

from .dyngen import has_yield

KEEP_FIRST = "keep-first"


def _blocks(prog):
    """Yield (path description, block list, protect_first, is_top_body) for every block."""
    out = []

    def walk(stmts, protect_first, top):
        out.append((stmts, protect_first, top))
        for s in stmts:
            op = s[0]
            if op == "if":
                walk(s[2], False, None)
                walk(s[3], False, None)
            elif op == "loop":
                walk(s[2], False, None)
            elif op == "while":
                walk(s[1], True, None)
            elif op == "try":
                walk(s[1], False, None)
                for h in s[2]:
                    walk(h[1], True, None)

    for b in prog["behaviors"]:
        walk(b["body"], False, b["body"])
    for m in prog["monitors"]:
        walk(m["body"], False, m["body"])
    for sc in prog["scenarios"]:
        if sc["compose"] is not None:
            walk(sc["compose"], False, sc["compose"])
    return out


def _top_bodies(prog):
    tops = [b["body"] for b in prog["behaviors"]] + [m["body"] for m in prog["monitors"]]
    tops += [sc["compose"] for sc in prog["scenarios"] if sc["compose"] is not None]
    return tops


def _wellformed(prog):
    for body in _top_bodies(prog):
        if not has_yield(body):
            return False
    return True


def _has_override(prog):
    return '"override"' in json.dumps(prog)


def _candidates(case):
    """Generate candidate cases, most aggressive first.  Each candidate is a fresh deep copy."""
    prog = case["prog"]

    # 1. cut whole top-level bodies down to a single wait
    nb = len(_top_bodies(prog))
    for i in range(nb):
        c = copy.deepcopy(case)
        body = _top_bodies(c["prog"])[i]
        if len(body) > 1 and not any(s[0] == "bind" for s in body):
            body[:] = [["wait"]]
            yield c

    # 2. drop setup statements other than object creation; drop guards
    for si, sc in enumerate(prog["scenarios"]):
        for j in range(len(sc["setup"]) - 1, -1, -1):
            if sc["setup"][j][0] != "new":
                c = copy.deepcopy(case)
                del c["prog"]["scenarios"][si]["setup"][j]
                yield c
        for g in ("pre", "inv"):
            for j in range(len(sc.get(g, [])) - 1, -1, -1):
                c = copy.deepcopy(case)
                del c["prog"]["scenarios"][si][g][j]
                yield c
    for bi, b in enumerate(prog["behaviors"]):
        for g in ("pre", "inv"):
            for j in range(len(b.get(g, [])) - 1, -1, -1):
                c = copy.deepcopy(case)
                del c["prog"]["behaviors"][bi][g][j]
                yield c

    # 3. objects lose their behavior (only when nothing overrides behaviors/properties)
    if not _has_override(prog):
        for si, sc in enumerate(prog["scenarios"]):
            for j, st in enumerate(sc["setup"]):
                if st[0] == "new" and st[2]:
                    c = copy.deepcopy(case)
                    c["prog"]["scenarios"][si]["setup"][j][2] = None
                    yield c

    # 4. statement-level edits inside blocks (tail halves first, then single statements)
    nblocks = len(_blocks(prog))
    for bi in range(nblocks):
        stmts, protect, _ = _blocks(prog)[bi]
        lo = 1 if protect else 0
        n = len(stmts)
        # delete the tail half
        if n - lo >= 4:
            cut = lo + (n - lo) // 2
            if not any(s[0] == "bind" for s in stmts[cut:]):
                c = copy.deepcopy(case)
                del _blocks(c["prog"])[bi][0][cut:]
                yield c
        for j in range(n - 1, lo - 1, -1):
            s = stmts[j]
            if s[0] == "bind":
                continue
            c = copy.deepcopy(case)
            del _blocks(c["prog"])[bi][0][j]
            yield c
        for j in range(n):
            s = stmts[j]
            op = s[0]
            if op == "if":
                for branch in (2, 3):
                    c = copy.deepcopy(case)
                    blk = _blocks(c["prog"])[bi][0]
                    blk[j : j + 1] = blk[j][branch]
                    yield c
            elif op == "try":
                c = copy.deepcopy(case)
                blk = _blocks(c["prog"])[bi][0]
                blk[j : j + 1] = blk[j][1]
                yield c
                if len(s[2]) > 1:
                    for h in range(len(s[2]) - 1, -1, -1):
                        c = copy.deepcopy(case)
                        del _blocks(c["prog"])[bi][0][j][2][h]
                        yield c
            elif op == "loop" and s[1] > 1:
                c = copy.deepcopy(case)
                _blocks(c["prog"])[bi][0][j][1] = 1
                yield c
            elif op == "do":
                if len(s[1]) > 1:
                    for h in range(len(s[1]) - 1, -1, -1):
                        c = copy.deepcopy(case)
                        del _blocks(c["prog"])[bi][0][j][1][h]
                        yield c
                if s[2] is not None:
                    c = copy.deepcopy(case)
                    _blocks(c["prog"])[bi][0][j][2] = None
                    yield c
            elif op in ("choose", "shuffle") and len(s[1]) > 1:
                for h in range(len(s[1]) - 1, -1, -1):
                    c = copy.deepcopy(case)
                    del _blocks(c["prog"])[bi][0][j][1][h]
                    yield c

    # 5. unreferenced definitions
    for kind in ("behaviors", "monitors", "scenarios"):
        for i, d in enumerate(prog[kind]):
            if kind == "scenarios" and d["name"] == prog["top"]:
                continue
            rest = copy.deepcopy(prog)
            del rest[kind][i]
            if not re.search(r"\b%s\b" % re.escape(d["name"]), json.dumps(rest)):
                c = copy.deepcopy(case)
                c["prog"] = rest
                yield c

    # 6. environment: fewer steps, all-false tables, identity schedule
    if case["max_steps"] > 1 and case["prog"].get("max_steps") == case["max_steps"]:
        c = copy.deepcopy(case)
        c["max_steps"] -= 1
        c["prog"]["max_steps"] -= 1
        yield c
    for k, bits in case["tables"].items():
        if "1" in bits:
            c = copy.deepcopy(case)
            c["tables"][k] = "0" * len(bits)
            yield c
    for k, bits in case["tables"].items():
        for i, ch in enumerate(bits):
            if ch == "1":
                c = copy.deepcopy(case)
                c["tables"][k] = bits[:i] + "0" + bits[i + 1 :]
                yield c
    if any(any(x) for x in case["schedule"]):
        c = copy.deepcopy(case)
        c["schedule"] = [[0] * len(x) for x in case["schedule"]]
        yield c
    if case.get("raise_guards"):
        c = copy.deepcopy(case)
        c["raise_guards"] = False
        yield c


def shrink_case(case, still_fails, budget=600, seconds=120):
    """Greedy fixpoint over _candidates; returns (case, calls)."""
    deadline = time.time() + seconds
    calls = 0
    best = copy.deepcopy(case)
    improved = True
    while improved:
        improved = False
        for cand in _candidates(best):
            if calls >= budget or time.time() > deadline:
                return best, calls
            if not _wellformed(cand["prog"]):
                continue
            calls += 1
            if still_fails(cand):
                best = cand
                improved = True
                break  # regenerate candidates from the smaller case
    return best, calls
