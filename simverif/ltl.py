"""Independent finite-trace LTL semantics (strong next, strong until).

Formulas are nested lists:
  ["atom", k] ["true"] ["false"] ["not", f] ["and", f, g] ["or", f, g]
  ["implies", f, g] ["always", f] ["eventually", f] ["next", f] ["until", f, g]

A trace is a list of valuations (dict atom -> bool), non-empty.

  holds(f, trace)                 -- does the complete finite trace satisfy f
  can_be_satisfied(f, trace)      -- is there a (possibly empty) continuation w such
                                     that trace+w satisfies f   (exact, backward fixpoint
                                     over subformula truth vectors)
  is_temporal(f)
Nothing here looks at Scenic or rv_ltl.
"""

import itertools

TRUE = ("true",)
FALSE = ("false",)


def tup(f):
    """Canonical hashable form."""
    if isinstance(f, (list, tuple)):
        return tuple(tup(x) for x in f)
    return f


def atoms_of(f, acc=None):
    acc = set() if acc is None else acc
    f = tup(f)
    if f[0] == "atom":
        acc.add(f[1])
    else:
        for x in f[1:]:
            if isinstance(x, tuple):
                atoms_of(x, acc)
    return acc


def is_temporal(f):
    f = tup(f)
    if f[0] in ("always", "eventually", "next", "until"):
        return True
    return any(is_temporal(x) for x in f[1:] if isinstance(x, tuple))


def size(f):
    f = tup(f)
    return 1 + sum(size(x) for x in f[1:] if isinstance(x, tuple))


def holds(f, trace, i=0):
    """Direct recursive definition over positions i..len(trace)-1 (strong)."""
    f = tup(f)
    n = len(trace)
    assert 0 <= i < n
    op = f[0]
    if op == "true":
        return True
    if op == "false":
        return False
    if op == "atom":
        return bool(trace[i][f[1]])
    if op == "not":
        return not holds(f[1], trace, i)
    if op == "and":
        return holds(f[1], trace, i) and holds(f[2], trace, i)
    if op == "or":
        return holds(f[1], trace, i) or holds(f[2], trace, i)
    if op == "implies":
        return (not holds(f[1], trace, i)) or holds(f[2], trace, i)
    if op == "always":
        return all(holds(f[1], trace, j) for j in range(i, n))
    if op == "eventually":
        return any(holds(f[1], trace, j) for j in range(i, n))
    if op == "next":
        return i + 1 < n and holds(f[1], trace, i + 1)
    if op == "until":
        for j in range(i, n):
            if holds(f[2], trace, j):
                return True
            if not holds(f[1], trace, j):
                return False
        return False
    raise ValueError(op)


# ---- exact continuation satisfiability via subformula truth vectors ----------
def _subformulas(f, acc):
    for x in f[1:]:
        if isinstance(x, tuple):
            _subformulas(x, acc)
    if f not in acc:
        acc.append(f)
    return acc


def _vec(subs, idx, s, vnext):
    """Truth of every subformula at a position with valuation s, given the vector of
    the next position (None at the last position)."""
    v = [False] * len(subs)
    for i, g in enumerate(subs):
        op = g[0]
        if op == "true":
            r = True
        elif op == "false":
            r = False
        elif op == "atom":
            r = bool(s[g[1]])
        elif op == "not":
            r = not v[idx[g[1]]]
        elif op == "and":
            r = v[idx[g[1]]] and v[idx[g[2]]]
        elif op == "or":
            r = v[idx[g[1]]] or v[idx[g[2]]]
        elif op == "implies":
            r = (not v[idx[g[1]]]) or v[idx[g[2]]]
        elif op == "next":
            r = vnext is not None and vnext[idx[g[1]]]
        elif op == "always":
            r = v[idx[g[1]]] and (vnext is None or vnext[i])
        elif op == "eventually":
            r = v[idx[g[1]]] or (vnext is not None and vnext[i])
        elif op == "until":
            r = v[idx[g[2]]] or (v[idx[g[1]]] and vnext is not None and vnext[i])
        else:
            raise ValueError(op)
        v[i] = r
    return tuple(v)


def _valuations(atoms):
    atoms = sorted(atoms)
    for bits in itertools.product((False, True), repeat=len(atoms)):
        yield dict(zip(atoms, bits))


def can_be_satisfied(f, trace):
    """Exact: is there a (possibly empty) continuation w with trace+w |= f ?

    R = set of subformula truth vectors realisable at the first position of some
    non-empty word (backward fixpoint); then the prefix is evaluated backwards from
    every vector in R, and from "end of trace"."""
    f = tup(f)
    if holds(f, trace):
        return True
    subs = _subformulas(f, [])
    idx = {g: i for i, g in enumerate(subs)}
    vals = list(_valuations(atoms_of(f)))
    R = set(_vec(subs, idx, s, None) for s in vals)
    frontier = list(R)
    while frontier:
        nxt = []
        for vn in frontier:
            for s in vals:
                v = _vec(subs, idx, s, vn)
                if v not in R:
                    R.add(v)
                    nxt.append(v)
        frontier = nxt
    top = idx[f]
    for vn in R:
        v = vn
        for s in reversed(trace):
            v = _vec(subs, idx, s, v)
        if v[top]:
            return True
    return False


def rv_eval(f, trace, i=0, until_bug=True):
    """BUG MODEL ONLY (never the reference): emulation of the third-party ``rv_ltl``
    monitor that Scenic delegates to.  Values: 4 TRUE, 3 PRESUMABLY_TRUE,
    2 PRESUMABLY_FALSE, 1 FALSE.  With until_bug=True the left operand of `until`
    evaluated at offset i is checked on [i, min(i+k, last)) instead of [i, k)
    (rv_ltl 0.1.0, UntilMonitor._evaluate_at)."""
    f = tup(f)
    last = len(trace) - 1
    op = f[0]

    def ev(g, j):
        return rv_eval(g, trace, j, until_bug)

    def until(l, r, i):
        for k in range(i, last + 1):
            v = 4 if r is None else ev(r, k)
            if v < 3:
                continue
            res = v
            hi = min(i + k, last) if until_bug else k
            for j in range(i, hi):
                res = min(res, 4 if l is None else ev(l, j))
            return res
        return 2

    if op == "true":
        return 4
    if op == "false":
        return 1
    if op == "atom":
        return 4 if trace[i][f[1]] else 1
    if op == "not":
        return 5 - ev(f[1], i)
    if op == "and":
        return min(ev(f[1], i), ev(f[2], i))
    if op == "or":
        return max(ev(f[1], i), ev(f[2], i))
    if op == "implies":
        return max(5 - ev(f[1], i), ev(f[2], i))
    if op == "next":
        return 2 if i + 1 > last else ev(f[1], i + 1)
    if op == "until":
        return until(f[1], f[2], i)
    if op == "eventually":
        return until(None, f[1], i)
    if op == "always":
        return 5 - until(None, ("not", f[1]), i)
    raise ValueError(op)


def witness_continuation(f, trace, maxlen=6):
    """A concrete continuation (list of valuations) making trace+w satisfy f, or None."""
    f = tup(f)
    atoms = atoms_of(f)
    vals = list(_valuations(atoms))
    if holds(f, trace):
        return []
    for n in range(1, maxlen + 1):
        for w in itertools.product(vals, repeat=n):
            if holds(f, list(trace) + list(w)):
                return list(w)
    return None


def render(f):
    """Scenic source text, fully parenthesised."""
    f = tup(f)
    op = f[0]
    if op == "atom":
        # every third table is read as a truthy/falsy non-bool value (same truth value)
        return f"tabv({f[1]})" if f[1] % 3 == 1 else f"tab({f[1]})"
    if op == "true":
        return "True"
    if op == "false":
        return "False"
    if op in ("not", "always", "eventually", "next"):
        return f"({op} {render(f[1])})"
    return f"({render(f[1])} {op} {render(f[2])})"


def selftest(n=400, seed=1):
    """progress/last_eval agree with the direct definition on random formulas."""
    import random

    rnd = random.Random(seed)

    def gen(d):
        if d == 0 or rnd.random() < 0.25:
            return ("atom", rnd.randrange(2))
        op = rnd.choice(["not", "and", "or", "implies", "always", "eventually", "next", "until"])
        if op in ("not", "always", "eventually", "next"):
            return (op, gen(d - 1))
        return (op, gen(d - 1), gen(d - 1))

    for _ in range(n):
        f = gen(3)
        L = rnd.randrange(1, 6)
        tr = [{0: rnd.random() < 0.5, 1: rnd.random() < 0.5} for _ in range(L)]
        direct = holds(f, tr)
        subs = _subformulas(tup(f), [])
        idx = {g: i for i, g in enumerate(subs)}
        v = None
        for st in reversed(tr):
            v = _vec(subs, idx, st, v)
        assert direct == v[idx[tup(f)]], (f, tr)
        c = can_be_satisfied(f, tr)
        w = witness_continuation(f, tr, 4)
        if c is False:
            assert w is None, (f, tr, w)
        if w is not None:
            assert c is True, (f, tr, w)
    return True
