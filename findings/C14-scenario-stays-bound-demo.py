"""NOT a seeded change: a C14 violation observed on the pristine tree (HEAD 338cec73)
while preparing the seeded ones. Exits 1 when the violation is present.

Simulation.__init__ -> veneer.beginSimulation -> DynamicScenario._bindTo(scene) rebinds
the COMPILED scenario's dynamicScenario._objects / ._ego to the scene's sampled objects,
and nothing restores them when the simulation ends. During later scenario.generate()
calls, veneer.executeInRequirement computes
    currentScenario._objects = tuple(values[obj] for obj in currentScenario.objects)
from those stale sampled objects (unknown keys map to themselves), so the 'can see'
operator inside a requirement (veneer.CanSee uses currentScenario._objects as occluders)
tests occlusion against the walls of the LAST SIMULATED scene instead of the candidate
sample: same seed gives different scenes than before the simulation, and scenes
violating 'require ego can see target' are accepted.
"""
import random
import sys

import scenic
from scenic.core.simulators import DummySimulator

s = scenic.scenarioFromString(
    """
ego = new Object at (0,0,0.5)
wall = new Object at (Range(-10,10), 5, 1), with width 4, with length 0.5, with height 2
target = new Object at (0, 10, 0.5), with requireVisible False
require ego can see target
terminate after 1 steps
"""
)


def batch(seed):
    random.seed(seed)
    return [s.generate(maxIterations=1000)[0].objects[1].position.x for _ in range(25)]


before = batch(1)
random.seed(0)
scene, _ = s.generate(maxIterations=1000)
DummySimulator().simulate(scene, maxSteps=2)
after = batch(1)
bad = [round(x, 2) for x in after if abs(x) < 1]  # wall squarely between ego and target
ok = True
if before != after:
    ok = False
    print("same seed, different scenes after a simulation:")
    print("  before:", [round(x, 1) for x in before[:8]])
    print("  after :", [round(x, 1) for x in after[:8]])
if bad:
    ok = False
    print("accepted scenes whose wall hides the target (wall x):", bad)
sys.exit(0 if ok else 1)
