/* Performance-only LD_PRELOAD shim for the check processes.
 *
 * CPython 3.12 allocates its per-thread "data stack" in 16 KiB chunks with mmap()
 * and returns them with munmap() every time the recursion depth drops below a chunk
 * boundary.  The recursive-descent Scenic parser crosses such boundaries ~1000 times
 * per compile, and in this sandbox 16 processes doing that concurrently spend most of
 * their time in the kernel (page faults + memcg accounting).  The shim keeps a small
 * free list of exactly those 16 KiB anonymous private RW mappings that it handed out
 * itself and recycles them (zeroed).  Every other mmap/munmap goes to libc untouched.
 * It changes no behaviour of the code under test; without it the checks only run slower.
 */
#define _GNU_SOURCE
#include <dlfcn.h>
#include <stddef.h>
#include <string.h>
#include <sys/mman.h>
#include <sys/types.h>

#define SZ 16384
#define MAXOWN 512
#define MAXC 256

static void *(*real_mmap)(void *, size_t, int, int, int, off_t);
static int (*real_munmap)(void *, size_t);
static void *owned[MAXOWN];
static int nowned;
static void *cache[MAXC];
static int ncache;
static volatile int lock;

static void take(void) { while (__atomic_exchange_n(&lock, 1, __ATOMIC_ACQUIRE)) {} }
static void give(void) { __atomic_store_n(&lock, 0, __ATOMIC_RELEASE); }

static void init(void) {
    if (!real_mmap) real_mmap = dlsym(RTLD_NEXT, "mmap");
    if (!real_munmap) real_munmap = dlsym(RTLD_NEXT, "munmap");
}

void *mmap(void *addr, size_t len, int prot, int flags, int fd, off_t off) {
    init();
    if (addr == NULL && len == SZ && prot == (PROT_READ | PROT_WRITE) &&
        flags == (MAP_PRIVATE | MAP_ANONYMOUS) && fd == -1) {
        void *p = NULL;
        take();
        if (ncache > 0) p = cache[--ncache];
        give();
        if (p) { memset(p, 0, SZ); return p; }
        p = real_mmap(addr, len, prot, flags, fd, off);
        if (p != MAP_FAILED) {
            take();
            if (nowned < MAXOWN) owned[nowned++] = p;
            give();
        }
        return p;
    }
    return real_mmap(addr, len, prot, flags, fd, off);
}

int munmap(void *addr, size_t len) {
    init();
    if (len == SZ) {
        int mine = 0, i;
        take();
        for (i = 0; i < nowned; i++) if (owned[i] == addr) { mine = 1; break; }
        if (mine && ncache < MAXC) { cache[ncache++] = addr; give(); return 0; }
        if (mine) { owned[i] = owned[--nowned]; }
        give();
    }
    return real_munmap(addr, len);
}

void *mmap64(void *addr, size_t len, int prot, int flags, int fd, off_t off) {
    return mmap(addr, len, prot, flags, fd, off);
}
