#!/bin/sh
# Offline setup: build the performance shim, make sure the Scenic parser exists,
# and check that the repo's interpreter can import what the checks need.
cd "$(dirname "$0")" || exit 1
mkdir -p .cache evidence replays
clang -O2 -shared -fPIC -o .cache/mmapcache.so native/mmapcache.c -ldl || echo "warning: shim not built (checks will run slower)"
/venv/bin/python -c "import scenic, numpy, trimesh, shapely, rv_ltl; print('scenic import ok')" || exit 1
exit 0
