#!/bin/sh
# usage: tools/try_mutant.sh <patch.diff> <check id> [<check id> ...]
# Applies a seeded change to a scratch worktree of /repo (never to /repo itself, so that
# other work in progress is not disturbed), runs the given checks' quick tier against it
# and removes the worktree.  Exit status: 0 if at least one check reported a VIOLATION.
set -u
patch=$(readlink -f "$1"); shift
wt=/tmp/mutwt_$$
git -C /repo worktree add -q --detach "$wt" HEAD || exit 2
trap 'git -C /repo worktree remove --force "$wt" >/dev/null 2>&1' EXIT
git -C "$wt" apply "$patch" || { echo "patch does not apply"; exit 2; }
cd "$(dirname "$0")/.." || exit 2
caught=1
for id in "$@"; do
    out=$(SIMVERIF_REPO="$wt" PYTHONPATH="$wt/src" ./check "$id" --no-evidence --no-selftest ${MUT_ARGS:-} 2>&1)
    echo "$out" | grep -E "^(VIOLATION|DONE|HARNESS|KNOWN)" | cut -c1-220
    echo "$out" | grep -q "^VIOLATION" && caught=0
done
exit $caught
