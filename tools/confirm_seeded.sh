#!/bin/sh
# usage: tools/confirm_seeded.sh <patch.diff> <demo.py> [pytest args...]
# Confirms, in a scratch worktree of /repo, that the demonstration passes without the
# change and fails with it, and (optionally) that the given existing tests still pass
# with the change.  Prints one line per step; exit 0 iff everything is as claimed.
set -u
patch=$(readlink -f "$1"); demo=$(readlink -f "$2"); shift 2
wt=/tmp/confwt_$$
git -C /repo worktree add -q --detach "$wt" HEAD || exit 2
trap 'git -C /repo worktree remove --force "$wt" >/dev/null 2>&1' EXIT
/venv/bin/python -m pegen "$wt/src/scenic/syntax/scenic.gram" -o "$wt/src/scenic/syntax/parser.py" >/dev/null 2>&1
ok=0
( cd "$wt" && PYTHONPATH="$wt/src" timeout 600 /venv/bin/python "$demo" >/dev/null 2>&1 ); r0=$?
echo "demo without change: exit $r0 (want 0)"; [ $r0 -eq 0 ] || ok=1
git -C "$wt" apply "$patch" || { echo "patch does not apply"; exit 2; }
if git -C "$wt" diff --name-only | grep -q scenic.gram; then
    /venv/bin/python -m pegen "$wt/src/scenic/syntax/scenic.gram" -o "$wt/src/scenic/syntax/parser.py" >/dev/null 2>&1
fi
( cd "$wt" && PYTHONPATH="$wt/src" /venv/bin/python -c "import scenic" ) || { echo "does not import"; ok=1; }
( cd "$wt" && PYTHONPATH="$wt/src" timeout 600 /venv/bin/python "$demo" >/dev/null 2>&1 ); r1=$?
echo "demo with change: exit $r1 (want non-zero)"; [ $r1 -ne 0 ] || ok=1
if [ $# -gt 0 ]; then
    out=$( cd "$wt" && PYTHONHASHSEED=0 PYTHONPATH="$wt/src" timeout 3000 /venv/bin/python -m pytest -q -p no:cacheprovider -p no:randomly --skip-pegen "$@" 2>&1 | tail -1 )
    echo "existing tests with change: $out"
    echo "$out" | grep -q failed && ok=1
fi
exit $ok
