#!/usr/bin/env python3
"""usage: tools/import_seeded2.py <src out dir> <prop id> <k in src> <new index> "<confirmation>" "<result>"
Like import_seeded.py, for later rounds (source directory and target index given explicitly)."""
import json, pathlib, shutil, sys
src, pid, k, new, confirmed, caught = sys.argv[1:7]
src = pathlib.Path(src)
dst = pathlib.Path(__file__).resolve().parent.parent / "seeded" / f"{pid}-m{new}"
dst.mkdir(parents=True, exist_ok=True)
shutil.copy(src / f"m{k}.diff", dst / "patch.diff")
shutil.copy(src / f"m{k}_demo.py", dst / "demo.py")
meta = json.loads((src / f"m{k}.json").read_text())
meta["origin"] = "independent sub-agent (later round) given only the property text and its own worktree of /repo"
meta["confirmed_by_me"] = confirmed
meta["checks_result"] = caught
(dst / "meta.json").write_text(json.dumps(meta, indent=1) + "\n")
print(dst)
