#!/usr/bin/env python3
import json, sys
for f in sys.argv[1:]:
    d = json.load(open(f))
    print("=====", f, d["clause"], "finding:", d["finding_key"], "tape_len", len(d["tape"]))
    dec = d.get("decoded") or {}
    if isinstance(dec, dict):
        for k, v in dec.items():
            if k == "program":
                print(v)
            elif k != "impl_log":
                print(f"{k}: {json.dumps(v)[:600]}")
    det = d.get("detail") or {}
    print("DETAIL:", json.dumps({k: v for k, v in det.items()}, default=str)[:1500])
