#!/venv/bin/python
"""Regenerate /verif/MANIFEST.json from the check modules' own metadata."""
import importlib
import json
import pathlib
import sys

VERIF = pathlib.Path(__file__).resolve().parent.parent
sys.path.insert(0, str(VERIF))

NOT_APPLICABLE = {
    "C04": "pure function of two shapes and poses: no RNG, clock, schedule, I/O or fault enters the overlap/containment tests, so there is nothing for a simulator to schedule or inject (its code runs incidentally under C02's accepted-scene oracle, which is not a claim about C04)",
    "C05": "expression evaluation is a pure function of the sampled leaf values; the RNG only selects inputs (the finite-discrete part is compared exactly inside C01; the rest would be input generation, not simulation)",
    "C06": "specifier resolution is a pure function of the specifier set; permuting the written order is input enumeration, not a schedule the system experiences",
    "C07": "geometric meaning of specifiers/operators is pure geometry over poses and sizes: no nondeterminism, time or fault dimension",
    "C09": "Python-subset parsing is a pure function of program text over a file corpus (translation validation, not simulation)",
    "C10": "front-end totality over mutated texts is input fuzzing of a pure function; its one stateful clause (compiler state inactive afterwards) is checked under C14, where failing compiles are one of the injected fault kinds",
    "C16": "region set algebra / distance / projection are pure functions of two regions and a probe point",
    "C17": "visibility is a pure function of poses and occluders (its internal ray shuffling uses a fixed private seed, so there is nothing to schedule)",
}

ALL = [f"C{i:02d}" for i in range(1, 21)]
# checks that are finished and registered (a module file alone does not claim anything)
READY = ["C01", "C02", "C03", "C08", "C11", "C12", "C13", "C14", "C15", "C18", "C19", "C20"]


def main():
    checks = []
    engines = {}
    claimed = []
    for pid in ALL:
        path = VERIF / "simverif" / "checks" / f"{pid.lower()}.py"
        if not path.exists() or pid not in READY:
            continue
        mod = importlib.import_module(f"simverif.checks.{pid.lower()}")
        if getattr(mod, "DISABLED", False) or pid not in READY:
            continue
        claimed.append(pid)
        checks.append(
            {
                "property_id": pid,
                "quick_cmd": f"./check {pid} --tier quick",
                "thorough_cmd": f"./check {pid} --tier thorough",
                "evidence_file": f"/verif/evidence/{pid}.json",
                "replay_cmd_template": f"./check {pid} --replay {{path}}",
                "engine": "simverif",
                "level_claimed": {
                    "category": mod.LEVEL,
                    "text": getattr(mod, "LEVEL_TEXT", mod.__doc__.strip().split("\n\n")[0]),
                    "design_ref": f"DESIGN.md section 3 ({pid})",
                },
                "level_note": getattr(
                    mod,
                    "LEVEL_NOTE",
                    "trusted: the reference model / oracle in /verif/simverif, the stub simulator, CPython; "
                    "sampled, not exhaustive, over programs",
                ),
                "technique": mod.TECHNIQUE,
            }
        )
    na = [
        {"property_id": pid, "reason": reason}
        for pid, reason in NOT_APPLICABLE.items()
    ]
    for pid in ALL:
        if pid not in claimed and pid not in NOT_APPLICABLE:
            na.append({"property_id": pid, "reason": "check not built yet in this round (planned in DESIGN.md section 3); nothing is claimed"})
    manifest = {
        "version": 1,
        "setup_cmd": "./setup.sh",
        "hooks": {
            "guard": "SCENIC_VERIF",
            "enable": "no source hooks: every seam is a module attribute or a Simulation subclass method (DESIGN.md section 1); checks run /repo's working tree directly (editable install) and regenerate src/scenic/syntax/parser.py from scenic.gram",
            "baseline_off_cmd": "cd /repo && /venv/bin/python -m pytest -ra -q -p no:cacheprovider --timeout=900 --continue-on-collection-errors",
            "source_commits": [],
            "add_only": True,
        },
        "engines": [
            {
                "name": "simverif",
                "path": "/verif/simverif",
                "serves_properties": claimed,
                "kind_free_text": "own deterministic-simulation engine: decision tape (one seed -> every choice), seam library (RNG back ends, clock, fault points), SimWorld stub simulator, program generators with paired reference models, two-stage minimiser (decision-tape shrinker + structural case shrinker), replay files verified in a fresh interpreter, known-finding matchers",
            }
        ],
        "checks": checks,
        "not_applicable": na,
        "notes": "Technique family: deterministic simulation with fault injection. See DESIGN.md. Exit codes: 0 held, 1 VIOLATION, 2 harness failure (never a VIOLATION line).",
    }
    (VERIF / "MANIFEST.json").write_text(json.dumps(manifest, indent=1) + "\n")
    print("claimed:", claimed)


if __name__ == "__main__":
    main()
