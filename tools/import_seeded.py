#!/usr/bin/env python3
"""usage: tools/import_seeded.py <prop id> <k> "<confirmation text>" "<caught by / missed text>"
Copies /tmp/mut_<id>/out/m<k>.{diff,json} and m<k>_demo.py into /verif/seeded/<id>-m<k>/ ."""
import json, pathlib, shutil, sys
pid, k, confirmed, caught = sys.argv[1:5]
src = pathlib.Path(f"/tmp/mut_{pid}/out")
dst = pathlib.Path(__file__).resolve().parent.parent / "seeded" / f"{pid}-m{k}"
dst.mkdir(parents=True, exist_ok=True)
shutil.copy(src / f"m{k}.diff", dst / "patch.diff")
shutil.copy(src / f"m{k}_demo.py", dst / "demo.py")
meta = json.loads((src / f"m{k}.json").read_text())
meta["origin"] = "independent sub-agent given only the property text and its own worktree of /repo"
meta["confirmed_by_me"] = confirmed
meta["checks_result"] = caught
(dst / "meta.json").write_text(json.dumps(meta, indent=1) + "\n")
print(dst)
